//! E2 driver — epoch chains: traced worker runs, enumeration of every kill cut (and power-loss
//! subset), in-process recovery of each image, judged against the acknowledged history.

use std::collections::{BTreeMap, BTreeSet};
use std::num::NonZeroU64;
use std::ops::Bound;
use std::path::Path;
use std::time::Duration;

use cassadilia::{Cas, Config, OrphanStats, SyncMode};
use serde::{Deserialize, Serialize};

use crate::common::*;
use crate::engine::{CaseMeta, R};
use crate::fail;
use crate::fsmodel::{Ev, Event, Fs};
use crate::ondisk;
use crate::proc::{err_path, run_worker, Script, ShimMode};
use crate::seq::{normalise_bounds, Cfg, Step, B};

#[derive(Clone, Debug, Serialize, Deserialize)]
pub enum End {
    Clean,
    /// crash at cut index = frac * ncuts >> 16
    Crash(u16),
}

#[derive(Clone, Debug, Serialize, Deserialize)]
pub struct Epoch {
    pub ops: Vec<Step>,
    pub cleanup: bool,
    pub flip_sync: bool,
    pub end: End,
}

#[derive(Clone, Debug, Serialize, Deserialize)]
pub struct E2Case {
    pub cfg: Cfg,
    pub epochs: Vec<Epoch>,
    /// cut fractions at which a real kill is cross-validated (applied in every epoch)
    pub validate: Vec<u16>,
    /// only states in which op `check_from_op` (of the first epoch) or a later one is in flight or
    /// acknowledged are checked (bulk histories: thousands of preparatory puts are not cut)
    #[serde(default)]
    pub check_from_op: Option<usize>,
}

#[derive(Clone, Copy, Default, Debug)]
pub struct E2Lenses {
    pub recover: bool,
    pub powerloss: bool,
    pub cashash: bool,
    pub orphan: bool,
    pub stats: bool,
    pub ondisk: bool,
    /// with `powerloss`: enumerate the power-loss images but leave the recovery verdict to C09 (C06 only
    /// looks at the files under cas/ in those images)
    pub pl_nojudge: bool,
}

pub type Model<K> = BTreeMap<K, Bytes>;

pub fn apply_step<K: HKey>(m: &Model<K>, pool: &[K], st: &Step) -> Model<K> {
    let mut m = m.clone();
    let key = |k: u8| pool[(k as usize).min(pool.len() - 1)].clone();
    match st {
        Step::Put { k, c, .. } => {
            m.insert(key(*k), c.bytes());
        }
        Step::Remove { k } => {
            m.remove(&key(*k));
        }
        Step::RemoveRange { lo, hi } => {
            let (lo, hi) = normalise_bounds(*lo, *hi, pool.len());
            let b = |x: B| match x {
                B::U => Bound::Unbounded,
                B::I(i) => Bound::Included(key(i)),
                B::E(i) => Bound::Excluded(key(i)),
            };
            let ks: Vec<K> = m.range((b(lo), b(hi))).map(|(k, _)| k.clone()).collect();
            for k in ks {
                m.remove(&k);
            }
        }
        Step::Bulk { n } => {
            for i in 0..*n as u64 {
                if let Some(k) = K::from_key_bytes(&(100_000 + i).to_le_bytes()) {
                    m.insert(k, pool_content(1));
                }
            }
        }
        _ => {}
    }
    m
}

struct CutState {
    fs: Option<Fs>,
    /// (number of acknowledged ops, in-flight op) pairs that hold somewhere inside this state's interval
    pairs: Vec<(usize, Option<usize>)>,
    phase: &'static str,
    /// label of the mutating call that follows this state
    next_label: String,
    /// mseq of the mutating call that follows (for real-kill validation)
    next_mseq: u64,
    durable_only_change: bool,
}

fn classify_path(rel: &str) -> &'static str {
    if rel.starts_with("cas/") {
        "cas"
    } else if rel.starts_with("staging/") {
        "staging"
    } else if rel.ends_with("_index.wal") {
        "wal"
    } else if rel == "index.tmp" {
        "index.tmp"
    } else if rel == "index" {
        "index"
    } else if rel.starts_with("db_settings") {
        "settings"
    } else if rel == "LOCK" {
        "lock"
    } else {
        "other"
    }
}

fn label_of(fs: &Fs, e: &Event) -> String {
    let rel = |p: &str| p.strip_prefix(&fs.root).map(|r| r.trim_start_matches('/').to_string()).unwrap_or_default();
    match &e.ev {
        Ev::Open { path, .. } => format!("open:{}", classify_path(&rel(path))),
        Ev::Write { .. } => "write".to_string(),
        Ev::Rename { old, new, .. } => format!("rename:{}->{}", classify_path(&rel(old)), classify_path(&rel(new))),
        Ev::Unlink { path, .. } => format!("unlink:{}", classify_path(&rel(path))),
        Ev::Mkdir { path, .. } => format!("mkdir:{}", classify_path(&rel(path))),
        Ev::Rmdir { .. } => "rmdir".into(),
        Ev::Trunc { .. } => "trunc".into(),
        _ => "end".into(),
    }
}

pub struct Recovered<K: HKey> {
    pub map: BTreeMap<K, ([u8; 32], u64)>,
    pub cas: Cas<K>,
    pub stats: OrphanStats<K>,
}

pub fn recover_config(n: u64, verify: bool) -> Config {
    Config {
        sync_mode: SyncMode::Sync,
        num_ops_per_wal: NonZeroU64::new(n.max(1)).unwrap(),
        pre_create_cas_dirs: false,
        scan_orphans_on_startup: true,
        verify_blob_integrity: verify,
        fail_on_integrity_errors: true,
    }
}

pub fn recover<K: HKey>(dir: &Path, n: u64) -> R<Recovered<K>> {
    match Cas::<K>::open_with_recover(dir, recover_config(n, true)) {
        Ok((cas, Some(stats))) => {
            let map = cas.read_index_state().iter().map(|(k, i)| (k.clone(), (*i.blob_hash.as_bytes(), i.blob_size))).collect();
            Ok(Recovered { map, cas, stats })
        }
        Ok((_, None)) => panic!("harness: scan was requested but no OrphanStats returned"),
        Err(e) => fail!(format!("recover/open-fails/{}", err_path(&e)), "opening the crash image fails: {e:?}"),
    }
}

fn model_sig<K: HKey>(m: &Model<K>) -> BTreeMap<K, ([u8; 32], u64)> {
    m.iter().map(|(k, v)| (k.clone(), (b3(v), v.len() as u64))).collect()
}

/// C03/C09 oracle on one recovered image. Returns the index of the matching allowed model.
fn judge_recovered<K: HKey>(rec: &Recovered<K>, allowed: &[&Model<K>], ctx: &str) -> R<usize> {
    let Some(idx) = allowed.iter().position(|m| model_sig(m) == rec.map) else {
        let keys: Vec<String> = rec.map.keys().map(|k| format!("{k:?}").chars().take(12).collect()).collect();
        let want: Vec<Vec<String>> = allowed.iter().map(|m| m.keys().map(|k| format!("{k:?}").chars().take(12).collect()).collect()).collect();
        fail!("recover/state-not-allowed", "{ctx}: recovered keys {keys:?}; allowed outcomes {want:?} (contents compared by hash+size)");
    };
    if !rec.stats.missing_blobs.is_empty() || !rec.stats.corrupted_blobs.is_empty() {
        fail!("recover/missing-or-corrupted-blob", "{ctx}: scan reports {} missing, {} corrupted blobs for the recovered keys", rec.stats.missing_blobs.len(), rec.stats.corrupted_blobs.len());
    }
    for (k, v) in allowed[idx].iter() {
        match rec.cas.get(k) {
            Ok(Some(b)) if b[..] == v[..] => {}
            Ok(other) => fail!("recover/blob-bytes-wrong", "{ctx}: get({k:?}) returns {:?} bytes, expected {}", other.map(|b| b.len()), v.len()),
            Err(e) => fail!(format!("recover/get-fails/{}", err_path(&e)), "{ctx}: get({k:?}) fails after recovery: {e:?}"),
        }
    }
    Ok(idx)
}

fn check_cashash_image(img: &Path, ctx: &str) -> R<()> {
    let root = img.join("cas");
    for (rel, _) in list_files(&root) {
        let Some(h) = is_canonical_blob_rel(&rel) else {
            fail!("cashash/non-canonical-file", "{ctx}: cas/{rel} is not at a canonical blob path");
        };
        let data = std::fs::read(root.join(&rel)).unwrap_or_default();
        if b3(&data) != h {
            fail!("cashash/content-mismatch", "{ctx}: cas/{rel} holds {} bytes that do not hash to its path", data.len());
        }
    }
    Ok(())
}

/// C20 on a raw image. `seen` tracks versions across the chain.
fn check_ondisk_image<K: HKey>(img: &Path, n: u64, allowed: &[&Model<K>], seen: &mut BTreeMap<u64, [u8; 32]>, ctx: &str) -> R<()> {
    let d = match ondisk::read_disk(img) {
        Ok(d) => d,
        Err(e) => fail!("ondisk/malformed", "{ctx}: independent reader rejects the files: {e}"),
    };
    if let Err(e) = d.check_versions(n) {
        fail!("ondisk/version-order-or-range", "{ctx}: {e}");
    }
    let max_before = seen.keys().next_back().copied().unwrap_or(0);
    let mut newly = Vec::new();
    for r in d.all_records() {
        let ph = b3(&r.payload);
        match seen.get(&r.version) {
            Some(old) if *old != ph => fail!("ondisk/version-reused", "{ctx}: version {} reappears with a different payload", r.version),
            Some(_) => {}
            None => newly.push((r.version, ph)),
        }
    }
    for (v, ph) in newly {
        if v <= max_before {
            fail!("ondisk/version-reused", "{ctx}: new record with version {v} although version {max_before} was already on disk");
        }
        seen.insert(v, ph);
    }
    let st = d.decode_state();
    let ok = allowed.iter().any(|m| {
        let exp: ondisk::State = m.iter().map(|(k, v)| (k.to_key_bytes_owned(), (b3(v), v.len() as u64))).collect();
        exp == st
    });
    if !ok {
        fail!("ondisk/decoded-state-differs", "{ctx}: snapshot v{} + log (max v{}) decode to {} keys, not an allowed outcome of the acknowledged history", d.snap_version(), d.max_version(), st.len());
    }
    Ok(())
}

/// C12 on a recovered store: internal consistency of refcounts / stats / sizes.
fn check_stats_recovered<K: HKey>(rec: &Recovered<K>, img: &Path, ctx: &str) -> R<()> {
    let mut rc: BTreeMap<[u8; 32], (u32, u64)> = BTreeMap::new();
    for (h, s) in rec.map.values() {
        let e = rc.entry(*h).or_insert((0, *s));
        e.0 += 1;
    }
    let g = rec.cas.read_index_state();
    let got: BTreeMap<[u8; 32], u32> = g.known_blobs().map(|(h, c)| (*h.as_bytes(), *c)).collect();
    let exp: BTreeMap<[u8; 32], u32> = rc.iter().map(|(h, (c, _))| (*h, *c)).collect();
    if got != exp {
        fail!("stats/refcounts", "{ctx}: after recovery known_blobs {:?} vs keys {:?}", got.values().collect::<Vec<_>>(), exp.values().collect::<Vec<_>>());
    }
    let st = g.stats();
    let tb: u64 = rc.values().map(|x| x.1).sum();
    if st.cas.unique_blobs != rc.len() as u64 || st.cas.total_bytes != tb {
        fail!("stats/cas-stats", "{ctx}: after recovery stats {}/{} vs derived {}/{tb}", st.cas.unique_blobs, st.cas.total_bytes, rc.len());
    }
    drop(g);
    for (k, (h, s)) in &rec.map {
        let p = img.join("cas").join(rel_path_of(h));
        let len = std::fs::metadata(&p).map(|m| m.len()).ok();
        if len != Some(*s) || rec.cas.get_size(k).ok().flatten() != Some(*s) {
            fail!("stats/item-size", "{ctx}: recorded size {s} of {k:?} vs blob file length {len:?}");
        }
    }
    Ok(())
}

/// Expected scan result computed independently from the directory and the recovered key map.
pub struct ExpectedScan {
    pub orphaned: BTreeSet<[u8; 32]>,
    pub missing: BTreeSet<[u8; 32]>,
    pub corrupted: BTreeSet<[u8; 32]>,
    pub invalid: BTreeSet<String>,
    pub staging: BTreeSet<String>,
    pub total_blobs: usize,
}

pub fn expected_scan(dir: &Path, referenced: &BTreeMap<[u8; 32], u64>, verify: bool) -> ExpectedScan {
    let cas = dir.join("cas");
    let mut e = ExpectedScan { orphaned: BTreeSet::new(), missing: BTreeSet::new(), corrupted: BTreeSet::new(), invalid: BTreeSet::new(), staging: BTreeSet::new(), total_blobs: 0 };
    let mut seen = BTreeSet::new();
    for (rel, len) in list_files(&cas) {
        match is_canonical_blob_rel(&rel) {
            Some(h) => {
                seen.insert(h);
                match referenced.get(&h) {
                    None => {
                        e.orphaned.insert(h);
                    }
                    Some(sz) => {
                        if verify {
                            let data = std::fs::read(cas.join(&rel)).unwrap_or_default();
                            if len != *sz || b3(&data) != h {
                                e.corrupted.insert(h);
                            }
                        }
                    }
                }
            }
            None => {
                e.invalid.insert(cas.join(&rel).to_string_lossy().to_string());
            }
        }
    }
    e.total_blobs = seen.len();
    for h in referenced.keys() {
        if !seen.contains(h) {
            e.missing.insert(*h);
        }
    }
    if let Ok(rd) = std::fs::read_dir(dir.join("staging")) {
        for en in rd.flatten() {
            if en.path().is_file() {
                e.staging.insert(en.path().to_string_lossy().to_string());
            }
        }
    }
    e
}

pub fn compare_scan<K>(stats: &OrphanStats<K>, exp: &ExpectedScan, ctx: &str) -> R<()> {
    let hs = |v: &Vec<cassadilia::BlobHash>| -> (BTreeSet<[u8; 32]>, usize) { (v.iter().map(|h| *h.as_bytes()).collect(), v.len()) };
    let (o, on) = hs(&stats.orphaned_blobs);
    if o != exp.orphaned || on != o.len() {
        fail!("scan/orphans-wrong", "{ctx}: scan reports {on} orphans ({} distinct), independent diff finds {}", o.len(), exp.orphaned.len());
    }
    let (m, mn) = hs(&stats.missing_blobs);
    if m != exp.missing || mn != m.len() {
        fail!("scan/missing-wrong", "{ctx}: scan reports {mn} missing, independent diff finds {}", exp.missing.len());
    }
    let (c, cn) = hs(&stats.corrupted_blobs);
    if c != exp.corrupted || cn != c.len() {
        fail!("scan/corrupted-wrong", "{ctx}: scan reports {cn} corrupted, independent check finds {}", exp.corrupted.len());
    }
    let inv: BTreeSet<String> = stats.invalid_files.iter().map(|p| p.to_string_lossy().to_string()).collect();
    if inv != exp.invalid || inv.len() != stats.invalid_files.len() {
        fail!("scan/invalid-wrong", "{ctx}: scan reports invalid files {:?}, expected {:?}", inv.iter().take(4).collect::<Vec<_>>(), exp.invalid.iter().take(4).collect::<Vec<_>>());
    }
    let stg: BTreeSet<String> = stats.staging_files.iter().map(|p| p.to_string_lossy().to_string()).collect();
    if stg != exp.staging || stg.len() != stats.staging_files.len() {
        fail!("scan/staging-wrong", "{ctx}: scan reports {} staging files, directory has {}", stg.len(), exp.staging.len());
    }
    if stats.total_blobs != exp.total_blobs {
        fail!("scan/total-wrong", "{ctx}: total_blobs {} vs {} canonical files", stats.total_blobs, exp.total_blobs);
    }
    Ok(())
}

/// C08 on a recovered crash image: scan exactness, then delete_orphans restores exactness.
fn check_orphans_recovered<K: HKey>(rec: &Recovered<K>, img: &Path, ctx: &str, meta: &mut CaseMeta) -> R<()> {
    let referenced: BTreeMap<[u8; 32], u64> = rec.map.values().map(|(h, s)| (*h, *s)).collect();
    // NB: the scan ran during open; recovery itself does not touch cas/ or staging/
    let exp = expected_scan(img, &referenced, true);
    compare_scan(&rec.stats, &exp, ctx)?;
    if !exp.orphaned.is_empty() {
        meta.class("img_with_orphan");
    }
    if !exp.staging.is_empty() {
        meta.class("img_with_staging_leftover");
    }
    let res = match rec.stats.delete_orphans() {
        Ok(r) => r,
        Err(e) => fail!("cleanup/delete_orphans-err", "{ctx}: delete_orphans failed: {e:?}"),
    };
    if !res.errors.is_empty() {
        fail!("cleanup/errors", "{ctx}: delete_orphans reported errors {:?}", res.errors);
    }
    if res.orphans_deleted != exp.orphaned.len() || res.invalid_files_removed != exp.invalid.len() || res.staging_files_removed != exp.staging.len() {
        fail!("cleanup/counters-wrong", "{ctx}: delete_orphans counters {res:?} vs expected {}/{}/{}", exp.orphaned.len(), exp.invalid.len(), exp.staging.len());
    }
    let after = expected_scan(img, &referenced, true);
    if !after.orphaned.is_empty() || !after.invalid.is_empty() || !after.staging.is_empty() {
        fail!("cleanup/garbage-left", "{ctx}: after delete_orphans {} orphans, {} invalid, {} staging files remain", after.orphaned.len(), after.invalid.len(), after.staging.len());
    }
    if after.missing != exp.missing || after.corrupted != exp.corrupted {
        fail!("cleanup/harmed-live-data", "{ctx}: delete_orphans changed referenced blobs (missing {} -> {}, corrupted {} -> {})", exp.missing.len(), after.missing.len(), exp.corrupted.len(), after.corrupted.len());
    }
    Ok(())
}

pub struct E2Stats {
    pub images: u64,
    pub traces_validated: u64,
}

fn harness_exit(msg: &str) -> ! {
    eprintln!("HARNESS-ERROR: {msg}");
    crate::common::remove_own_scratch();
    std::process::exit(2);
}

pub fn run_e2<K: HKey>(case: &E2Case, lenses: E2Lenses) -> R<CaseMeta> {
    let scratch = Scratch::new("e2");
    let root = scratch.db();
    let work = scratch.path.join("work");
    let img = scratch.path.join("img");
    let val = scratch.path.join("val");
    std::fs::create_dir_all(&work).expect("harness: mkdir work");
    std::fs::create_dir_all(&root).expect("harness: mkdir root");
    let pool = K::pool();
    let mut meta = CaseMeta::default();
    let case_hash = hash_json(case);
    let mut base: Model<K> = Model::new();
    let mut asyn = case.cfg.asyn;
    let mut seen_versions: BTreeMap<u64, [u8; 32]> = BTreeMap::new();
    let n = case.cfg.n;

    for (ei, ep) in case.epochs.iter().enumerate() {
        if ep.flip_sync {
            asyn = !asyn;
        }
        // C09 is a statement about Sync mode only: never let a generated step switch the mode
        let ops: Vec<Step> = ep.ops.iter().map(|o| match o {
            Step::Reopen { .. } if lenses.powerloss => Step::Reopen { flip: false },
            other => other.clone(),
        }).collect();
        if lenses.powerloss {
            asyn = false;
        }
        let script = Script { cfg: case.cfg.clone(), asyn, cleanup: ep.cleanup, ops, dump: false, pre_create: false };
        let mut fs0 = Fs::from_dir(&root);
        fs0.root = root.to_string_lossy().to_string();
        let run = run_worker(&root, &work, &format!("e{ei}"), &script, ShimMode::Trace, Duration::from_secs(60));
        if run.timed_out {
            harness_exit("worker timed out in an error-free traced run");
        }
        if run.out.open != "ok" {
            fail!(format!("recover/open-fails/{}", run.out.open.trim_start_matches("err:")), "epoch {ei}: the worker's open of the store failed: {}", run.out.open_detail);
        }
        for r in &run.out.ops {
            if r.status != "ok" {
                fail!(format!("worker/op-{}", r.status), "epoch {ei}: op {} ({:?}) ended with {} {:?} in an error-free run", r.i, ep.ops.get(r.i), r.status, r.err);
            }
        }
        if run.code != Some(0) {
            harness_exit(&format!("worker exit code {:?} in an error-free traced run", run.code));
        }
        // models after k acknowledged ops
        let mut models: Vec<Model<K>> = vec![base.clone()];
        for op in &ep.ops {
            let next = apply_step(models.last().unwrap(), &pool, op);
            models.push(next);
        }
        // ---- replay the trace, collecting states ----
        let mut fs = fs0.clone();
        let mut states: Vec<CutState> = Vec::new();
        let mut acked = 0usize;
        let mut inflight: Option<usize> = None;
        let mut phase: &'static str = if ei == 0 { "init" } else { "recovery" };
        let relevant = |pairs: &Vec<(usize, Option<usize>)>| -> bool {
            match case.check_from_op {
                None => true,
                Some(c) => pairs.iter().any(|(a, inf)| *a >= c || inf.is_some_and(|i| i >= c)),
            }
        };
        let mut cur = CutState { fs: None, pairs: vec![(0, None)], phase, next_label: String::new(), next_mseq: 0, durable_only_change: false };
        for e in &run.trace {
            match &e.ev {
                Ev::Mark(t) => {
                    let mut it = t.split(' ');
                    match it.next() {
                        Some("B") => {
                            inflight = it.next().and_then(|x| x.parse().ok());
                            phase = "op";
                        }
                        Some("E") => {
                            let i: usize = it.next().and_then(|x| x.parse().ok()).unwrap_or(0);
                            acked = i + 1;
                            inflight = None;
                        }
                        Some("OPENED") => phase = "opened",
                        Some("CLEANUP") => phase = "cleanup",
                        Some("CLOSE") => phase = "close",
                        _ => {}
                    }
                    if !cur.pairs.contains(&(acked, inflight)) {
                        cur.pairs.push((acked, inflight));
                    }
                    continue;
                }
                Ev::Open { path, flags, ret } => {
                    if lenses.cashash && *ret >= 0 && (flags & crate::fsmodel::O_ACCMODE) != 0 {
                        if let Some(rel) = path.strip_prefix(&fs.root) {
                            if rel.starts_with("/cas/") {
                                fail!("cashash/write-open-under-cas", "epoch {ei}: a file under cas/ was opened with write access: {rel} (flags {flags:x})");
                            }
                        }
                    }
                }
                _ => {}
            }
            // the filesystem does not change inside an interval: snapshot it lazily, and only for states that will be checked
            if cur.fs.is_none() && relevant(&cur.pairs) {
                cur.fs = Some(fs.clone());
            }
            let before_unsynced = if lenses.powerloss { fs.unsynced().len() } else { 0 };
            let is_mut = e.mseq > 0;
            if is_mut && cur.next_mseq == 0 {
                cur.next_mseq = e.mseq;
                cur.next_label = label_of(&fs, e);
            }
            let changed = match fs.apply(e) {
                Ok(c) => c,
                Err(m) => harness_exit(&format!("trace model mismatch: {m}")),
            };
            let durable_changed = lenses.powerloss && matches!(e.ev, Ev::Sync { .. }) && fs.unsynced().len() != before_unsynced;
            if changed || durable_changed {
                if cur.next_mseq == 0 {
                    cur.next_label = "sync".into();
                }
                if cur.fs.is_some() {
                    states.push(cur);
                }
                cur = CutState { fs: None, pairs: vec![(acked, inflight)], phase, next_label: String::new(), next_mseq: 0, durable_only_change: !changed };
            }
        }
        cur.next_label = "end".into();
        if cur.fs.is_none() && relevant(&cur.pairs) {
            cur.fs = Some(fs.clone());
        }
        if cur.fs.is_some() {
            states.push(cur);
        }
        if states.is_empty() {
            harness_exit("no state to check in an E2 epoch");
        }
        // trace validation: reconstructed final image == real directory
        if let Some(d) = fs.diff_real(&root) {
            harness_exit(&format!("reconstructed final image differs from the real directory: {d}"));
        }
        meta.count("traces_validated_against_impl", 1);

        // ---- check every state ----
        let mut chosen: Option<(usize, Vec<usize>, Model<K>)> = None;
        let crash_idx = match ep.end {
            End::Crash(f) => Some(((f as usize) * states.len()) >> 16),
            End::Clean => None,
        };
        let mut epoch_seen = seen_versions.clone();
        let mut seen_at_choice = seen_versions.clone();
        for (si, st) in states.iter().enumerate() {
            let ctx = format!("epoch {ei} cut {si}/{} [{} before {}]", states.len(), st.phase, st.next_label);
            // all (acked, inflight) pairs of this interval
            let mut lost_sets: Vec<Vec<usize>> = vec![vec![]];
            if lenses.powerloss && !asyn {
                let uns = st.fs.as_ref().unwrap().unsynced();
                let k = uns.len().min(6);
                for mask in 1u32..(1 << k) {
                    lost_sets.push((0..k).filter(|b| mask & (1 << b) != 0).map(|b| uns[b].1).collect());
                }
                if !uns.is_empty() {
                    meta.class("cut_with_unsynced_inode");
                }
            } else if st.durable_only_change {
                continue;
            }
            // the image a crashing epoch continues from: the kill image, or (power-loss mode) the image
            // that loses every unsynced byte
            let choice_li = if lenses.powerloss && lost_sets.len() > 1 { lost_sets.len() - 1 } else { 0 };
            for (li, lost) in lost_sets.iter().enumerate() {
                if lenses.powerloss && li == 0 && !lenses.recover {
                    // C09 judges only images that actually lose something; the kill image is C03's.
                    if crash_idx == Some(si) && choice_li == 0 {
                        st.fs.as_ref().unwrap().materialise(&img, lost);
                        if let Ok(rec) = recover::<K>(&img, n) {
                            let m = st.pairs.iter().flat_map(|(a, inf)| {
                                let mut v = vec![&models[(*a).min(models.len() - 1)]];
                                if let Some(i) = inf { if i + 1 < models.len() && i == a { v.push(&models[i + 1]); } }
                                v
                            }).find(|m| model_sig(m) == rec.map).cloned();
                            if let Some(m) = m { chosen = Some((si, vec![], m)); }
                        }
                    }
                    continue;
                }
                st.fs.as_ref().unwrap().materialise(&img, lost);
                meta.evals += 1;
                let allowed_for = |a: usize, inf: Option<usize>| -> Vec<&Model<K>> {
                    let mut v = vec![&models[a.min(models.len() - 1)]];
                    if let Some(i) = inf {
                        if i + 1 < models.len() && i == a {
                            v.push(&models[i + 1]);
                        }
                    }
                    v
                };
                let lctx = if lost.is_empty() { ctx.clone() } else { format!("{ctx} power-loss of {} file(s): {:?}", lost.len(), st.fs.as_ref().unwrap().files.iter().filter(|(_, i)| lost.contains(i)).map(|(n, _)| classify_path(n)).collect::<Vec<_>>()) };
                if lenses.cashash {
                    check_cashash_image(&img, &lctx)?;
                }
                if lenses.ondisk {
                    // strongest requirement over the interval: every pair must be satisfied
                    let mut tmp_seen = epoch_seen.clone();
                    for (a, inf) in &st.pairs {
                        let al = allowed_for(*a, *inf);
                        let mut s2 = epoch_seen.clone();
                        check_ondisk_image::<K>(&img, n, &al, &mut s2, &lctx)?;
                        tmp_seen = s2;
                    }
                    epoch_seen = tmp_seen;
                }
                let mut resolved: Option<Model<K>> = None;
                let judge = lenses.recover || (lenses.powerloss && !lenses.pl_nojudge);
                if judge || lenses.orphan || lenses.stats {
                    let rec = match recover::<K>(&img, n) {
                        Ok(r) => r,
                        Err(f) => {
                            if judge {
                                return Err(crate::engine::Fail::new(f.sig, format!("{lctx}: {}", f.detail)));
                            }
                            // other lenses need a recovered store; C03 reports open failures
                            meta.class("image_unrecoverable_skipped");
                            continue;
                        }
                    };
                    if judge {
                        for (a, inf) in &st.pairs {
                            let al = allowed_for(*a, *inf);
                            let idx = judge_recovered(&rec, &al, &format!("{lctx} acked={a} inflight={inf:?}"))?;
                            resolved = Some(al[idx].clone());
                        }
                    } else {
                        // pick the resolution that matches, for chain continuation
                        for (a, inf) in &st.pairs {
                            for m in allowed_for(*a, *inf) {
                                if model_sig(m) == rec.map {
                                    resolved = Some(m.clone());
                                }
                            }
                        }
                    }
                    if lenses.stats {
                        check_stats_recovered(&rec, &img, &lctx)?;
                    }
                    if lenses.orphan {
                        check_orphans_recovered(&rec, &img, &lctx, &mut meta)?;
                    }
                    drop(rec);
                }
                // non-trivial: cut strictly inside an op / inside recovery or init
                let inside_op = st.pairs.iter().any(|(_, inf)| inf.is_some()) && st.phase == "op";
                let nontrivial = if lenses.powerloss {
                    !lost.is_empty() && st.fs.as_ref().unwrap().files.iter().any(|(nm, i)| lost.contains(i) && matches!(classify_path(nm), "cas" | "wal" | "index"))
                } else {
                    inside_op || st.phase == "recovery" || st.phase == "init" || st.phase == "cleanup"
                };
                if nontrivial {
                    let mut h = blake3::Hasher::new();
                    h.update(&case_hash.to_le_bytes());
                    h.update(&(ei as u64).to_le_bytes());
                    h.update(&(si as u64).to_le_bytes());
                    h.update(&(li as u64).to_le_bytes());
                    meta.nontrivial.push(u64::from_le_bytes(h.finalize().as_bytes()[..8].try_into().unwrap()));
                }
                if lost.is_empty() {
                    meta.class(&format!("cut:{}:{}", st.phase, st.next_label));
                }
                if crash_idx == Some(si) && li == choice_li {
                    let m = resolved.clone().or_else(|| {
                        // lenses without recovery (C06/C20 only): derive the resolution through a plain recovery
                        recover::<K>(&img, n).ok().and_then(|rec| {
                            st.pairs.iter().flat_map(|(a, inf)| allowed_for(*a, *inf)).find(|m| model_sig(m) == rec.map).cloned()
                        })
                    });
                    if let Some(m) = m {
                        chosen = Some((si, lost.clone(), m));
                        seen_at_choice = epoch_seen.clone();
                    }
                }
            }
        }
        // ---- real-kill cross-validation ----
        for f in &case.validate {
            let si = ((*f as usize) * states.len()) >> 16;
            let st = &states[si];
            if st.next_mseq == 0 {
                continue;
            }
            fs0.materialise(&val, &[]);
            let mut v0 = Fs::from_dir(&val);
            v0.root = val.to_string_lossy().to_string();
            let r = run_worker(&val, &work, &format!("v{ei}"), &script, ShimMode::CrashAt(st.next_mseq), Duration::from_secs(60));
            if r.code != Some(137) {
                // the run did not reach that call (non-determinism) — nothing to compare
                meta.count("realkill_not_reached", 1);
                continue;
            }
            let mut vf = v0.clone();
            for e in &r.trace {
                if let Err(m) = vf.apply(e) {
                    harness_exit(&format!("trace model mismatch in real-kill run: {m}"));
                }
            }
            if let Some(d) = vf.diff_real(&val) {
                harness_exit(&format!("real-kill validation: image reconstructed from the killed process's own trace differs from its directory: {d}"));
            }
            meta.count("traces_validated_against_impl", 1);
            // informational: does the killed run agree with the cut image of the original trace?
            let mut a = st.fs.as_ref().unwrap().clone();
            a.root = val.to_string_lossy().to_string();
            if a.diff_real(&val).is_none() {
                meta.count("realkill_matches_cut_image", 1);
            } else {
                meta.count("realkill_differs_from_cut_image", 1);
            }
        }
        // ---- continue the chain ----
        match (&ep.end, chosen) {
            (End::Clean, _) | (End::Crash(_), None) => {
                base = models.last().unwrap().clone();
                seen_versions = epoch_seen;
                if matches!(ep.end, End::Crash(_)) {
                    meta.class("crash_choice_unavailable_continued_clean");
                }
            }
            (End::Crash(_), Some((si, lost, m))) => {
                states[si].fs.as_ref().unwrap().materialise(&root, &lost);
                base = m;
                seen_versions = seen_at_choice;
                meta.class("chain_continued_from_crash_image");
            }
        }
    }
    Ok(meta)
}

pub fn run_e2_dyn(case: &E2Case, lenses: E2Lenses) -> R<CaseMeta> {
    crate::with_key_type!(case.cfg.kt.as_str(), run_e2(case, lenses))
}
