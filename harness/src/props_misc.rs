//! In-process properties: C17 (range cube), C19 (settings gate), C10 (damaged log), C16 (codecs).

use std::collections::BTreeMap;
use std::num::NonZeroU64;
use std::panic::{catch_unwind, AssertUnwindSafe};
use std::path::Path;
use std::sync::Mutex;

use cassadilia::{BlobHash, Cas, Config, KeyBytes, LibError, SyncMode, WalOp, WalOpRaw};
use proptest::collection::vec;
use proptest::prelude::*;
use serde::{Deserialize, Serialize};

use crate::alloc::measure;
use crate::common::*;
use crate::engine::*;
use crate::fail;
use crate::ondisk;
use crate::proc::err_path;

fn cfg_n(n: u64, scan: bool) -> Config {
    Config {
        sync_mode: SyncMode::Sync,
        num_ops_per_wal: NonZeroU64::new(n.max(1)).unwrap(),
        pre_create_cas_dirs: false,
        scan_orphans_on_startup: scan,
        verify_blob_integrity: false,
        fail_on_integrity_errors: true,
    }
}

fn mix(a: u64, b: u64, c: u64, d: u64) -> u64 {
    let mut h = blake3::Hasher::new();
    for x in [a, b, c, d] {
        h.update(&x.to_le_bytes());
    }
    u64::from_le_bytes(h.finalize().as_bytes()[..8].try_into().unwrap())
}

// =============================================================================================
// C17

pub const C17_RULE: &str = "get_range cube: blob lengths L in {0,1,2,3,5,16,4095,4096,4097,8191,8192,8193,65537}, each on a fresh key and on a key that held a content of length L+3, L/2 or 0 before (the answer must depend on the current content only); for L<=5 ALL (start,end) in [0,L+2]^2 (exhaustive); for every L all pairs from the boundary set {0,1,L-1,L,L+1,2^32-1,2^32,2^32+1,2^63-1,2^63,2^64-2,2^64-1}; plus proptest-random (L<=100000, edge-biased start/end) and a large part (L in {128Ki,128Ki+1,256Ki,300001,512Ki,1Mi+1} or random in [110000,1.2M]; start/end at fractions of L, around multiples of 64 KiB and 128 KiB, around L and near 0, so that ranges longer than 128 KiB that start and end strictly inside the blob occur in most cases). Oracle: start<=end => exactly content[min(start,L)..min(end,L)]; start>end and start<L => Err; get_size==L; reader streams L bytes; absent key => Ok(None); no panic; peak heap during get_range <= L + 8 KiB (counting allocator). non-trivial = triple on a face of the cube (start==L, end==L, start==end, end>=2^32, L==0, start>end); distinct by (L,start,end)";

#[derive(Clone, Debug, Serialize, Deserialize)]
pub struct C17Case {
    pub len: usize,
    pub pairs: Vec<(u64, u64)>,
    /// the key held another content of this length before (overwritten by the content under test)
    #[serde(default)]
    pub prev: Option<usize>,
}

fn c17_run(case: &C17Case) -> R<CaseMeta> {
    crate::alloc::set_case_ctx("C17", "C17", &serde_json::to_value(case).unwrap_or_default(), "range");
    let scratch = Scratch::new("c17");
    let cas = Cas::<u64>::open(scratch.db(), cfg_n(100, false)).map_err(|e| Fail::new("open-err", format!("{e:?}")))?;
    let l = case.len as u64;
    let content = gen_content(case.len as u64, case.len);
    if let Some(pl) = case.prev {
        let mut tx = cas.put(7).map_err(|e| Fail::new("op-err/put", format!("{e:?}")))?;
        tx.write(&gen_content(9_000_000 + pl as u64, pl)).map_err(|e| Fail::new("op-err/write", format!("{e:?}")))?;
        tx.finish().map_err(|e| Fail::new("op-err/finish", format!("{e:?}")))?;
    }
    let mut tx = cas.put(7).map_err(|e| Fail::new("op-err/put", format!("{e:?}")))?;
    tx.write(&content).map_err(|e| Fail::new("op-err/write", format!("{e:?}")))?;
    tx.finish().map_err(|e| Fail::new("op-err/finish", format!("{e:?}")))?;
    let mut m = CaseMeta::default();
    match cas.get_size(&7) {
        Ok(Some(s)) if s == l => {}
        other => fail!("range/get_size", "get_size = {other:?} for a blob of {l} bytes"),
    }
    match cas.get_reader(&7) {
        Ok(Some(mut r)) => {
            let mut b = Vec::new();
            std::io::Read::read_to_end(&mut r, &mut b).map_err(|e| Fail::new("range/reader-io", e.to_string()))?;
            if b != content {
                fail!("range/reader-bytes", "get_reader streamed {} bytes for a blob of {l}", b.len());
            }
        }
        other => fail!("range/reader", "get_reader = {:?}", other.map(|o| o.is_some())),
    }
    for &(s, e) in &case.pairs {
        m.evals += 1;
        let (res, peak, largest) = measure(|| catch_unwind(AssertUnwindSafe(|| cas.get_range(&7, s, e))));
        let res = match res {
            Ok(r) => r,
            Err(_) => {
                let (msg, loc) = take_panic();
                fail!("range/panic", "get_range({s},{e}) on L={l} panicked: {msg} at {loc}");
            }
        };
        if s <= e {
            let a = s.min(l) as usize;
            let b = e.min(l) as usize;
            match &res {
                Ok(Some(got)) if got[..] == content[a..b] => {}
                other => fail!("range/slice-mismatch", "get_range({s},{e}) on L={l}: got {:?}, expected {} bytes [{a}..{b})", other.as_ref().map(|o| o.as_ref().map(|b| b.len())), b - a),
            }
        } else if s < l {
            if res.is_ok() {
                fail!("range/inverted-accepted", "get_range({s},{e}) with start>end and start<L={l} returned {:?}", res.as_ref().map(|o| o.as_ref().map(|b| b.len())));
            }
        }
        if peak > l + 8192 || largest > l + 4096 {
            fail!("range/allocation", "get_range({s},{e}) on L={l}: peak heap {peak} bytes, largest request {largest}");
        }
        match cas.get_range(&8, s, e) {
            Ok(None) => {}
            other => fail!("range/absent-key", "get_range on an absent key returned {:?}", other.map(|o| o.map(|b| b.len()))),
        }
        let face = s == l || e == l || s == e || e >= (1 << 32) || l == 0 || s > e;
        if face {
            m.nontrivial.push(mix(l, s, e, 17));
        }
    }
    m.class(&format!("L_{}", if case.len <= 5 { "small" } else if case.len < 8192 { "mid" } else if case.len <= 110_000 { "big" } else { "huge" }));
    if case.prev.is_some() {
        m.class("key_held_another_length_before");
    }
    if case.pairs.iter().any(|&(s, e)| s <= e && e < l && e - s > 131_072) {
        m.class("range_gt_128k_ending_inside");
    }
    Ok(m)
}

pub fn run_c17(ctx: &Ctx, acc: &Mutex<Acc>) -> Option<Violation> {
    let lens = [0usize, 1, 2, 3, 5, 16, 4095, 4096, 4097, 8191, 8192, 8193, 65537];
    let mut items = Vec::new();
    for &l in &lens {
        let lu = l as u64;
        let mut pairs = Vec::new();
        if l <= 5 {
            for s in 0..=lu + 2 {
                for e in 0..=lu + 2 {
                    pairs.push((s, e));
                }
            }
        }
        let mut bs = vec![0, 1, lu.saturating_sub(1), lu, lu + 1, (1u64 << 32) - 1, 1 << 32, (1 << 32) + 1, (1u64 << 63) - 1, 1 << 63, u64::MAX - 1, u64::MAX];
        bs.sort();
        bs.dedup();
        for &s in &bs {
            for &e in &bs {
                pairs.push((s, e));
            }
        }
        pairs.sort();
        pairs.dedup();
        items.push(C17Case { len: l, pairs: pairs.clone(), prev: None });
        // the same cube on a key that held a longer / a shorter / an empty content before
        for pl in [l + 3, l / 2, 0] {
            if pl != l {
                items.push(C17Case { len: l, pairs: pairs.clone(), prev: Some(pl) });
            }
        }
    }
    if let Some(v) = enumerate(ctx, acc, "cube", "C17", items, c17_run) {
        return Some(v);
    }
    acc.lock().unwrap().exhaustive = false;
    let cases = ctx.tier.scale(300, 10);
    let rv = || prop_oneof![3 => 0u64..20, 3 => 0u64..110_000, 1 => Just(u64::MAX), 1 => Just(1u64 << 32), 1 => any::<u64>()];
    let first = campaign(
        ctx,
        acc,
        "random",
        "C17",
        cases,
        200,
        move |_| {
            (prop_oneof![3 => 0usize..40, 3 => 4000usize..8300, 2 => 0usize..100_000], vec((rv(), rv()), 20..60), vec(0u64..64, 0..20), proptest::option::weighted(0.4, prop_oneof![0usize..40, 0usize..100_000]))
                .prop_map(|(len, mut pairs, near, prev)| {
                    // pairs near the length
                    for (i, d) in near.iter().enumerate() {
                        let a = (len as u64 + d).saturating_sub(32);
                        let b = (len as u64 + near[(i + 1) % near.len()]).saturating_sub(32);
                        pairs.push((a, b));
                    }
                    C17Case { len, pairs, prev }
                })
        },
        c17_run,
    );
    if first.is_some() {
        return first;
    }
    // large blobs: ranges longer than any plausible internal buffer, starting and ending strictly inside
    let cases = ctx.tier.scale(40, 10);
    campaign(
        ctx,
        acc,
        "random-large",
        "C17",
        cases,
        60,
        move |_| {
            let around = |base: u64| (0u64..3, Just(base)).prop_map(|(d, b)| (b + d).saturating_sub(1));
            (prop_oneof![Just(131_072usize), Just(131_073usize), Just(262_144usize), Just(300_001usize), Just(524_288usize), Just(1_048_577usize), 110_000usize..1_200_000], vec((0u64..1000, 0u64..1000, 0u8..6, 0u8..6), 6..16)).prop_flat_map(move |(len, raw)| {
                let l = len as u64;
                let pt = move |permille: u64, kind: u8| -> BoxedStrategy<u64> {
                    match kind {
                        0 => Just(l * permille / 1000).boxed(),
                        1 => around(65_536 * (1 + permille % 16)).boxed(),
                        2 => around(l).boxed(),
                        3 => Just(permille % 3).boxed(),
                        4 => around(131_072 * (1 + permille % 8)).boxed(),
                        _ => Just(l.saturating_sub(permille * 9)).boxed(),
                    }
                };
                let pairs: Vec<BoxedStrategy<(u64, u64)>> = raw.iter().map(|&(a, b, ka, kb)| (pt(a, ka), pt(b, kb)).prop_map(|(x, y)| if x <= y || (x + y) % 5 == 0 { (x, y) } else { (y, x) }).boxed()).collect();
                pairs.prop_map(move |pairs| C17Case { len, pairs, prev: if len % 3 == 0 { Some(len / 3 + 7) } else { None } })
            })
        },
        c17_run,
    )
}

pub fn replay_c17(case: serde_json::Value) -> R<CaseMeta> {
    c17_run(&serde_json::from_value(case).expect("harness: bad C17 case"))
}

// =============================================================================================
// C19

pub const C19_RULE: &str = "settings gate: for generated short histories (puts/removes leaving an un-checkpointed WAL tail) and EVERY ordered pair (N_create, N_reopen) over {1,2,3,10,100,10000,2^64-1} and every stored format version in {0..8, 2^32-1}: a mismatching open must return Err and leave the directory byte-for-byte identical (names and contents); a later matching open must show the model state; matching opens succeed. Pre-creation: the same history under pre_create_cas_dirs=true/false must give identical reads and blob file sets, and the value stored at creation must win over the value passed at reopen (new blobs can still be stored). non-trivial = rejected open on a store with >=1 un-checkpointed record; distinct by (pair or version, history hash)";

#[derive(Clone, Debug, Serialize, Deserialize)]
pub struct C19Case {
    /// (key index, content id) puts; negative content = remove
    pub ops: Vec<(u8, i8)>,
    pub checkpoint_at: Option<u8>,
    pub pre: bool,
}

const C19_NS: [u64; 7] = [1, 2, 3, 10, 100, 10_000, u64::MAX];

fn c19_apply(cas: &Cas<u64>, model: &mut BTreeMap<u64, Bytes>, case: &C19Case) -> R<()> {
    for (i, (k, c)) in case.ops.iter().enumerate() {
        let key = *k as u64;
        if *c < 0 {
            cas.remove(&key).map_err(|e| Fail::new("op-err/remove", format!("{e:?}")))?;
            model.remove(&key);
        } else {
            let content = pool_content((*c as usize) % 4);
            let mut tx = cas.put(key).map_err(|e| Fail::new("op-err/put", format!("{e:?}")))?;
            tx.write(&content).map_err(|e| Fail::new("op-err/write", format!("{e:?}")))?;
            tx.finish().map_err(|e| Fail::new("op-err/finish", format!("{e:?}")))?;
            model.insert(key, content);
        }
        if case.checkpoint_at == Some(i as u8) {
            cas.checkpoint().map_err(|e| Fail::new("op-err/checkpoint", format!("{e:?}")))?;
        }
    }
    Ok(())
}

fn c19_state(cas: &Cas<u64>) -> BTreeMap<u64, ([u8; 32], u64)> {
    cas.read_index_state().iter().map(|(k, i)| (*k, (*i.blob_hash.as_bytes(), i.blob_size))).collect()
}

fn c19_run(case: &C19Case) -> R<CaseMeta> {
    let mut m = CaseMeta::default();
    let h = hash_json(case);
    let cfgp = |n: u64, pre: bool| Config { pre_create_cas_dirs: pre, ..cfg_n(n, true) };
    if case.pre {
        // differential: pre-created tree vs on-demand
        let mut obs = Vec::new();
        for pre in [true, false] {
            let scratch = Scratch::new("c19p");
            let mut model = BTreeMap::new();
            {
                let cas = Cas::<u64>::open(scratch.db(), cfgp(3, pre)).map_err(|e| Fail::new("settings/create-fails", format!("{e:?}")))?;
                c19_apply(&cas, &mut model, case)?;
            }
            // reopen with the *other* choice: the remembered value must win
            let cas = Cas::<u64>::open(scratch.db(), cfgp(3, !pre)).map_err(|e| Fail::new("settings/pre-reopen-fails", format!("created with pre={pre}, reopen with pre={} fails: {e:?}", !pre)))?;
            let extra = gen_content(99, 33);
            let put = (|| -> Result<(), LibError> {
                let mut tx = cas.put(200)?;
                tx.write(&extra).map_err(|e| LibError::Io { operation: cassadilia::LibIoOperation::WriteStagingFile, path: None, source: std::io::Error::other(format!("{e:?}")) })?;
                tx.finish()
            })();
            if let Err(e) = put {
                fail!("settings/pre-choice-not-remembered", "store created with pre_create_cas_dirs={pre}, reopened with {}: a put fails: {e:?}", !pre);
            }
            model.insert(200, std::sync::Arc::new(extra));
            let st = c19_state(&cas);
            let reads: Vec<Option<usize>> = (0..8u64).chain([200]).map(|k| cas.get(&k).ok().flatten().map(|b| b.len())).collect();
            let exp: BTreeMap<u64, ([u8; 32], u64)> = model.iter().map(|(k, v)| (*k, (b3(v), v.len() as u64))).collect();
            if st != exp {
                fail!("settings/pre-state-differs", "pre={pre}: state differs from the model");
            }
            let files: Vec<String> = list_files(&scratch.db().join("cas")).into_keys().collect();
            obs.push((st, reads, files));
            m.evals += 1;
        }
        if obs[0] != obs[1] {
            fail!("settings/pre-observable-difference", "pre-created and on-demand stores differ observably for the same history");
        }
        m.nontrivial.push(mix(h, 1, 2, 3));
        m.class("pre_create_differential");
        return Ok(m);
    }
    for &nc in &C19_NS {
        let scratch = Scratch::new("c19");
        let db = scratch.db();
        let mut model = BTreeMap::new();
        {
            let cas = Cas::<u64>::open(&db, cfgp(nc, false)).map_err(|e| Fail::new("settings/create-fails", format!("N={nc}: {e:?}")))?;
            c19_apply(&cas, &mut model, case)?;
        }
        let exp: BTreeMap<u64, ([u8; 32], u64)> = model.iter().map(|(k, v)| (*k, (b3(v), v.len() as u64))).collect();
        let tail = ondisk::read_disk(&db).map(|d| d.all_records().filter(|r| r.version > d.snap_version()).count()).unwrap_or(0);
        let before = snapshot_tree(&db);
        for &nr in &C19_NS {
            if nr == nc {
                continue;
            }
            m.evals += 1;
            match Cas::<u64>::open(&db, cfgp(nr, false)) {
                Ok(_) => fail!("settings/mismatch-accepted", "store created with num_ops_per_wal={nc} opened with {nr}"),
                Err(LibError::Settings(_)) => {}
                Err(e) => fail!(format!("settings/wrong-error/{}", err_path(&e)), "mismatching open ({nc} vs {nr}) failed with {e:?} instead of a settings error"),
            }
            let after = snapshot_tree(&db);
            if after != before {
                let ch: Vec<&String> = after.keys().filter(|k| before.get(*k) != after.get(*k)).chain(before.keys().filter(|k| !after.contains_key(*k))).take(5).collect();
                fail!("settings/rejected-open-modified-files", "open with N={nr} on a store created with N={nc} was rejected but changed {ch:?}");
            }
            if tail > 0 {
                m.nontrivial.push(mix(h, nc, nr, 19));
            }
        }
        // stored versions
        let settings_path = db.join("db_settings.json");
        let orig = std::fs::read(&settings_path).expect("harness: read settings");
        let mut js: serde_json::Value = serde_json::from_slice(&orig).expect("harness: settings json");
        let cur = js["version"].as_u64().unwrap_or(0);
        if nc == 3 {
            for v in (0u64..=8).chain([u32::MAX as u64]) {
                if v == cur {
                    continue;
                }
                js["version"] = serde_json::json!(v);
                std::fs::write(&settings_path, serde_json::to_vec(&js).unwrap()).expect("harness: write settings");
                let before = snapshot_tree(&db);
                m.evals += 1;
                match Cas::<u64>::open(&db, cfgp(nc, false)) {
                    Ok(_) => fail!("settings/version-mismatch-accepted", "store with on-disk format version {v} (build expects {cur}) was opened"),
                    Err(LibError::Settings(_)) => {}
                    Err(e) => fail!(format!("settings/wrong-error/{}", err_path(&e)), "version {v}: failed with {e:?} instead of a settings error"),
                }
                if snapshot_tree(&db) != before {
                    fail!("settings/rejected-open-modified-files", "open of a store with format version {v} was rejected but changed files");
                }
                if tail > 0 {
                    m.nontrivial.push(mix(h, nc, v, 1919));
                }
            }
            std::fs::write(&settings_path, &orig).expect("harness: restore settings");
        }
        // a later correct open sees the data unchanged
        m.evals += 1;
        let cas = Cas::<u64>::open(&db, cfgp(nc, false)).map_err(|e| Fail::new(format!("settings/correct-open-fails/{}", err_path(&e)), format!("N={nc}: {e:?}")))?;
        if c19_state(&cas) != exp {
            fail!("settings/data-changed", "after rejected opens the store (N={nc}) no longer shows the model state");
        }
        for (k, v) in &model {
            match cas.get(k) {
                Ok(Some(b)) if b[..] == v[..] => {}
                other => fail!("settings/data-changed", "get({k}) = {:?}", other.map(|o| o.map(|b| b.len()))),
            }
        }
        if tail > 0 {
            m.class("uncheckpointed_tail");
        }
    }
    Ok(m)
}

pub fn run_c19(ctx: &Ctx, acc: &Mutex<Acc>) -> Option<Violation> {
    let cases = ctx.tier.scale(6, 10);
    let strat = |pre: bool| {
        (vec((0u8..6, -1i8..4), 1..10), proptest::option::of(0u8..8)).prop_map(move |(ops, checkpoint_at)| C19Case { ops, checkpoint_at, pre })
    };
    if let Some(v) = campaign(ctx, acc, "pairs-and-versions", "C19", cases, 100, |_| strat(false), c19_run) {
        return Some(v);
    }
    // pre-creation differential: expensive (65 536 mkdirs per store), few cases
    let items: Vec<C19Case> = (0..ctx.tier.scale(2, 4))
        .map(|i| C19Case { ops: (0..(3 + i as u8)).map(|j| (j % 5, ((j + i as u8) % 4) as i8)).chain([(1, -1)]).collect(), checkpoint_at: if i % 2 == 0 { Some(1) } else { None }, pre: true })
        .collect();
    enumerate(ctx, acc, "pre-create", "C19", items, c19_run)
}

pub fn replay_c19(case: serde_json::Value) -> R<CaseMeta> {
    c19_run(&serde_json::from_value(case).expect("harness: bad C19 case"))
}


// ---------------------------------------------------------------------------------------------
// C19 — generated histories on a pre-created tree versus an on-demand tree

pub const C19_PRE_RULE: &str = "pre-creation histories: a generated history (puts of 6 contents on 6 keys, removes, range removes, checkpoints, reopens passing either value of pre_create_cas_dirs, and orphan episodes: the store is closed, a blob file of a pool content that is currently unreferenced is planted at its canonical path - what a crash between the blob rename and the log append leaves -, the store is opened with open_with_recover and delete_orphans / quarantine_orphans / delete_orphan runs; later steps put that same content again) is run once on a store created with pre_create_cas_dirs=true and once on one created with false. Oracle: the two runs are indistinguishable through the API and in the set of blob files: every step has the same outcome (Ok or the same error), and after every step the index state and all reads - and after orphan episodes, removals, every 8th step and the last step the list of regular files under cas/ - agree with each other (and with the model while no step failed). non-trivial = history with an orphan episode followed by a put of the planted content, or with a reopen that passes the other flag value; distinct by case hash; histories in which a step fails identically in both runs are discarded (counted)";

#[derive(Clone, Debug, Serialize, Deserialize)]
pub enum PStep {
    Put { k: u8, c: u8 },
    Remove { k: u8 },
    RemoveRange { a: u8, b: u8 },
    Checkpoint,
    Reopen { other_flag: bool },
    /// plant content c as an orphan (if unreferenced), reopen with recovery, run action 0 delete_orphans / 1 quarantine_orphans / 2 delete_orphan
    Orphan { c: u8, action: u8 },
}

#[derive(Clone, Debug, Serialize, Deserialize)]
pub struct C19PCase {
    pub steps: Vec<PStep>,
}

fn c19p_content(c: u8) -> Vec<u8> {
    const LENS: [usize; 6] = [0, 1, 5, 100, 5000, 20_000];
    gen_content(40 + c as u64, LENS[c as usize % 6])
}

type C19PObs = (String, BTreeMap<u64, ([u8; 32], u64)>, Vec<Option<usize>>, Vec<String>);

fn c19p_one(case: &C19PCase, pre: bool) -> R<(Vec<C19PObs>, bool, bool, bool)> {
    let cfgp = |pre: bool| Config { pre_create_cas_dirs: pre, ..cfg_n(3, true) };
    let scratch = Scratch::new("c19h");
    let db = scratch.db();
    let mut cas = Some(Cas::<u64>::open(&db, cfgp(pre)).map_err(|e| Fail::new("settings/create-fails", format!("pre_create_cas_dirs={pre}: {e:?}")))?);
    let mut model: BTreeMap<u64, Vec<u8>> = BTreeMap::new();
    let mut model_ok = true;
    let mut obs = Vec::new();
    let mut planted: std::collections::BTreeSet<u8> = Default::default();
    let mut put_after_orphan = false;
    let mut other_flag_reopen = false;
    let es = |e: &LibError| format!("err:{}", err_path(e));
    for (i, st) in case.steps.iter().enumerate() {
        let outcome: String = match st {
            PStep::Put { k, c } => {
                let content = c19p_content(*c);
                let h = cas.as_ref().unwrap();
                let r = (|| -> Result<(), LibError> {
                    let mut tx = h.put(*k as u64)?;
                    tx.write(&content).map_err(|e| LibError::Io { operation: cassadilia::LibIoOperation::WriteStagingFile, path: None, source: std::io::Error::other(format!("{e:?}")) })?;
                    tx.finish()
                })();
                match r {
                    Ok(()) => {
                        if planted.contains(&(*c % 6)) {
                            put_after_orphan = true;
                        }
                        model.insert(*k as u64, content);
                        "ok".into()
                    }
                    Err(e) => {
                        model_ok = false;
                        es(&e)
                    }
                }
            }
            PStep::Remove { k } => match cas.as_ref().unwrap().remove(&(*k as u64)) {
                Ok(_) => {
                    model.remove(&(*k as u64));
                    "ok".into()
                }
                Err(e) => {
                    model_ok = false;
                    es(&e)
                }
            },
            PStep::RemoveRange { a, b } => {
                let (lo, hi) = (*a.min(b) as u64, *a.max(b) as u64);
                match cas.as_ref().unwrap().remove_range(lo..=hi) {
                    Ok(_) => {
                        model.retain(|k, _| *k < lo || *k > hi);
                        "ok".into()
                    }
                    Err(e) => {
                        model_ok = false;
                        es(&e)
                    }
                }
            }
            PStep::Checkpoint => match cas.as_ref().unwrap().checkpoint() {
                Ok(_) => "ok".into(),
                Err(e) => es(&e),
            },
            PStep::Reopen { other_flag } => {
                cas = None;
                if *other_flag {
                    other_flag_reopen = true;
                }
                match Cas::<u64>::open(&db, cfgp(pre ^ *other_flag)) {
                    Ok(c) => {
                        cas = Some(c);
                        "ok".into()
                    }
                    Err(e) => {
                        obs.push((format!("step {i} reopen {}", es(&e)), BTreeMap::new(), vec![], vec![]));
                        return Ok((obs, false, put_after_orphan, other_flag_reopen));
                    }
                }
            }
            PStep::Orphan { c, action } => {
                cas = None;
                let content = c19p_content(*c);
                let h = b3(&content);
                let live = model.values().any(|v| b3(v) == h);
                if !live {
                    let p = db.join("cas").join(rel_path_of(&h));
                    std::fs::create_dir_all(p.parent().unwrap()).expect("harness: mkdir");
                    std::fs::write(&p, &content).expect("harness: plant orphan");
                    planted.insert(*c % 6);
                }
                match Cas::<u64>::open_with_recover(&db, cfgp(pre)) {
                    Ok((c2, Some(stats))) => {
                        cas = Some(c2);
                        let summary = format!("scan o={} i={} m={} c={} s={} t={}", stats.orphaned_blobs.len(), stats.invalid_files.len(), stats.missing_blobs.len(), stats.corrupted_blobs.len(), stats.staging_files.len(), stats.total_blobs);
                        let r = match action % 3 {
                            0 => stats.delete_orphans().map(|r| format!("deleted {} errors {}", r.orphans_deleted, r.errors.len())),
                            1 => stats.quarantine_orphans(&scratch.path.join(format!("quarantine{i}"))).map(|r| format!("quarantined {} errors {}", r.orphans_quarantined, r.errors.len())),
                            _ => stats.delete_orphan(&BlobHash::from_bytes(h)).map(|b| format!("delete_orphan {b}")),
                        };
                        match r {
                            Ok(x) => format!("{summary}; {x}"),
                            Err(e) => format!("{summary}; {}", es(&e)),
                        }
                    }
                    Ok((_, None)) => panic!("harness: no OrphanStats although scanning was requested"),
                    Err(e) => {
                        obs.push((format!("step {i} open_with_recover {}", es(&e)), BTreeMap::new(), vec![], vec![]));
                        return Ok((obs, false, put_after_orphan, other_flag_reopen));
                    }
                }
            }
        };
        let h = cas.as_ref().unwrap();
        let st_now = c19_state(h);
        if model_ok && outcome.starts_with("ok") {
            let exp: BTreeMap<u64, ([u8; 32], u64)> = model.iter().map(|(k, v)| (*k, (b3(v), v.len() as u64))).collect();
            if st_now != exp {
                fail!("settings/pre-state-differs", "pre_create_cas_dirs={pre}: after step {i} ({st:?}) the index state differs from the model");
            }
        }
        let reads: Vec<Option<usize>> = (0..6u64).map(|k| h.get(&k).ok().flatten().map(|b| b.len())).collect();
        // walking a pre-created tree costs 65 536 directory reads: list the blob files after orphan episodes,
        // after removals (unlinks), at every 8th step and at the end
        let list = matches!(st, PStep::Orphan { .. } | PStep::Remove { .. } | PStep::RemoveRange { .. }) || i % 8 == 7 || i + 1 == case.steps.len();
        let files: Vec<String> = if list { list_files(&db.join("cas")).into_keys().collect() } else { vec![] };
        obs.push((format!("step {i} {outcome}"), st_now, reads, files));
    }
    Ok((obs, model_ok, put_after_orphan, other_flag_reopen))
}

fn c19p_run(case: &C19PCase) -> R<CaseMeta> {
    let mut m = CaseMeta { evals: 2, ..Default::default() };
    let (a, ok_a, pao, ofr) = c19p_one(case, true)?;
    let (b, ok_b, _, _) = c19p_one(case, false)?;
    for (i, (x, y)) in a.iter().zip(b.iter()).enumerate() {
        if x != y {
            let what = if x.0 != y.0 {
                format!("outcome '{}' on the pre-created store, '{}' on the on-demand store", x.0, y.0)
            } else if x.1 != y.1 {
                "index states differ".to_string()
            } else if x.2 != y.2 {
                format!("reads differ: {:?} vs {:?}", x.2, y.2)
            } else {
                format!("blob file sets differ: {} vs {} files", x.3.len(), y.3.len())
            };
            fail!("settings/pre-observable-difference", "the same history behaves differently on a store created with pre_create_cas_dirs=true and on one created with false, at observation {i} ({:?}): {what}", case.steps.get(i));
        }
    }
    if a.len() != b.len() {
        fail!("settings/pre-observable-difference", "the same history ends after {} observations on the pre-created store and after {} on the on-demand store", a.len(), b.len());
    }
    if !ok_a || !ok_b || a.len() < case.steps.len() {
        // a step failed identically in both runs: not a matter of this property
        m.discarded = true;
        return Ok(m);
    }
    if pao {
        m.class("put_of_content_after_its_orphan_was_cleaned");
    }
    if ofr {
        m.class("reopen_with_other_flag");
    }
    if pao || ofr {
        m.nontrivial.push(hash_json(case));
    }
    Ok(m)
}

pub fn run_c19_pre_histories(ctx: &Ctx, acc: &Mutex<Acc>) -> Option<Violation> {
    let cases = ctx.tier.scale(1, 8);
    let strat = || {
        let step = prop_oneof![
            8 => (0u8..6, 0u8..6).prop_map(|(k, c)| PStep::Put { k, c }),
            2 => (0u8..6).prop_map(|k| PStep::Remove { k }),
            1 => (0u8..6, 0u8..6).prop_map(|(a, b)| PStep::RemoveRange { a, b }),
            1 => Just(PStep::Checkpoint),
            1 => any::<bool>().prop_map(|other_flag| PStep::Reopen { other_flag }),
            3 => (0u8..6, 0u8..3).prop_map(|(c, action)| PStep::Orphan { c, action }),
        ];
        vec(step, 4..40).prop_map(|steps| C19PCase { steps })
    };
    campaign(ctx, acc, "pre-create-histories", "C19P", cases, 16, |_| strat(), c19p_run)
}

pub fn replay_c19p(case: serde_json::Value) -> R<CaseMeta> {
    c19p_run(&serde_json::from_value(case).expect("harness: bad C19P case"))
}


// ---------------------------------------------------------------------------------------------
// C02 — large indexes: thousands of keys, snapshots and log records far beyond buffer sizes

pub const C02_LARGE_RULE: &str = "large indexes: 0-9000 keys (String keys r/NNNNN - in half of the String cases with a 24-byte suffix and one 70 000-byte key, so that single Put records and range-removal records exceed 64 KiB - or u64 keys i*0x9E3779B97F4A7C15 whose encoded byte order differs from their numeric order) are put with three shared small contents; a checkpoint at a generated position, a remove_range over a generated sub-range (one log record of up to ~300 KB), optionally another checkpoint; then the handle is dropped and the store reopened; a few more puts and removes and a second reopen; N in {1 (<=600 keys), 7, 100, 10000}, both sync modes. Oracle: after each reopen the index holds exactly the model's keys with {blake3(content), length}, known_blobs() equals the model's reference counts, and sampled keys read back their bytes. non-trivial = >=300 keys at a reopen AND a range removal of >=2 keys or a checkpoint with log records after it; distinct by case hash";

#[derive(Clone, Debug, Serialize, Deserialize)]
pub struct C02LCase {
    pub int_keys: bool,
    pub n_keys: u16,
    pub n: u64,
    pub cp1: Option<u16>,
    pub rr: Option<(u16, u16)>,
    pub cp2: bool,
    pub extra: Vec<(u16, i8)>,
    pub asyn: bool,
    /// String keys only: key 0 is 70 000 bytes long (a single Put record beyond 64 KiB) and all keys carry a
    /// 24-byte suffix (range removals of a few thousand keys give records of 100-300 KB)
    #[serde(default)]
    pub long_keys: bool,
}

fn c02l_run_k<K: HKey>(case: &C02LCase, mk: impl Fn(u32) -> K) -> R<CaseMeta> {
    let mut m = CaseMeta { evals: 2, ..Default::default() };
    let scratch = Scratch::new("c02l");
    let db = scratch.db();
    let cfg = Config { sync_mode: if case.asyn { SyncMode::Async } else { SyncMode::Sync }, ..cfg_n(case.n, true) };
    let open = |what: &str| Cas::<K>::open(&db, cfg.clone()).map_err(|e| Fail::new(format!("reopen/large-index-open-fails/{}", err_path(&e)), format!("{what}: {e:?}")));
    let mut model: BTreeMap<K, usize> = BTreeMap::new();
    let put = |cas: &Cas<K>, k: K, c: usize| -> R<()> {
        let mut tx = cas.put(k).map_err(|e| Fail::new("op-err/put", format!("{e:?}")))?;
        tx.write(&pool_content(c)).map_err(|e| Fail::new("op-err/write", format!("{e:?}")))?;
        tx.finish().map_err(|e| Fail::new("op-err/finish", format!("{e:?}")))
    };
    let check = |cas: &Cas<K>, model: &BTreeMap<K, usize>, what: &str| -> R<()> {
        let g = cas.read_index_state();
        if g.len() != model.len() {
            fail!("reopen/large-index-state-differs", "{what}: the index holds {} keys, the model {}", g.len(), model.len());
        }
        let mut rc: BTreeMap<[u8; 32], u32> = BTreeMap::new();
        for (k, c) in model {
            let content = pool_content(*c);
            let h = b3(&content);
            *rc.entry(h).or_default() += 1;
            match g.get_item(k) {
                Some(i) if *i.blob_hash.as_bytes() == h && i.blob_size == content.len() as u64 => {}
                other => fail!("reopen/large-index-state-differs", "{what}: key {k:?} maps to {other:?}, expected content {c}"),
            }
        }
        let got: BTreeMap<[u8; 32], u32> = g.known_blobs().map(|(h, c)| (*h.as_bytes(), *c)).collect();
        if got != rc {
            fail!("reopen/large-index-refcounts", "{what}: known_blobs {:?} vs model {:?}", got.values().collect::<Vec<_>>(), rc.values().collect::<Vec<_>>());
        }
        drop(g);
        for (k, c) in model.iter().step_by((model.len() / 5).max(1)) {
            match cas.get(k) {
                Ok(Some(b)) if b[..] == pool_content(*c)[..] => {}
                other => fail!("reopen/large-index-read", "{what}: get({k:?}) = {:?}", other.map(|o| o.map(|b| b.len()))),
            }
        }
        Ok(())
    };
    let mut tail_after_cp = false;
    let mut removed = 0usize;
    {
        let cas = open("creating the store")?;
        for i in 0..case.n_keys as u32 {
            put(&cas, mk(i), (i % 3) as usize)?;
            model.insert(mk(i), (i % 3) as usize);
            if case.cp1 == Some(i as u16) {
                cas.checkpoint().map_err(|e| Fail::new("op-err/checkpoint", format!("{e:?}")))?;
                tail_after_cp = (i + 1) < case.n_keys as u32;
            }
        }
        if let Some((a, b)) = case.rr {
            // bounds by rank in the key order, so that wide ranges are wide for scrambled integer keys too
            let keys: Vec<K> = model.keys().cloned().collect();
            let (ka, kb) = if keys.is_empty() { (mk(a as u32), mk(b as u32)) } else { (keys[a as usize % keys.len()].clone(), keys[b as usize % keys.len()].clone()) };
            let (lo, hi) = if ka <= kb { (ka, kb) } else { (kb, ka) };
            let before = model.len();
            cas.remove_range(lo.clone()..=hi.clone()).map_err(|e| Fail::new("op-err/remove_range", format!("{e:?}")))?;
            model.retain(|k, _| *k < lo || *k > hi);
            removed = before - model.len();
        }
        if case.cp2 {
            cas.checkpoint().map_err(|e| Fail::new("op-err/checkpoint", format!("{e:?}")))?;
        }
    }
    let big = model.len() >= 300 || case.n_keys >= 300;
    {
        let cas = open("first reopen")?;
        check(&cas, &model, "after the first reopen")?;
        for (i, c) in &case.extra {
            let k = mk(*i as u32);
            if *c < 0 {
                cas.remove(&k).map_err(|e| Fail::new("op-err/remove", format!("{e:?}")))?;
                model.remove(&k);
            } else {
                put(&cas, k.clone(), *c as usize % 3)?;
                model.insert(k, *c as usize % 3);
            }
        }
    }
    let cas = open("second reopen")?;
    check(&cas, &model, "after the second reopen")?;
    if big && (removed >= 2 || tail_after_cp) {
        m.nontrivial.push(hash_json(case));
    }
    m.class(if case.int_keys { "large_u64_keys" } else { "large_string_keys" });
    m.class(&format!("large_n_{}", case.n));
    let per_key = if case.int_keys { 12 } else if case.long_keys { 36 } else { 11 };
    if removed * per_key > 8192 {
        m.class("remove_record_gt_8k");
    }
    if removed * per_key > 65_536 {
        m.class("remove_record_gt_64k");
    }
    if case.long_keys && !case.int_keys && case.n_keys > 0 {
        m.class("put_record_gt_64k");
    }
    if model.len() * 50 > 131_072 {
        m.class("snapshot_gt_128k");
    }
    Ok(m)
}

fn c02l_run(case: &C02LCase) -> R<CaseMeta> {
    if case.int_keys {
        c02l_run_k::<u64>(case, |i| (i as u64).wrapping_mul(0x9E37_79B9_7F4A_7C15))
    } else {
        let long = case.long_keys;
        c02l_run_k::<String>(case, move |i| {
            if !long {
                format!("r/{i:05}")
            } else if i == 0 {
                format!("r/{i:05}/{}", "x".repeat(70_000))
            } else {
                format!("r/{i:05}/key-suffix-of-24-bytes..")
            }
        })
    }
}

pub fn run_c02_large(ctx: &Ctx, acc: &Mutex<Acc>) -> Option<Violation> {
    let cases = ctx.tier.scale(6, 10);
    let strat = || {
        (any::<bool>(), prop_oneof![1 => 0u16..50, 2 => 300u16..1500, 4 => 1500u16..4000, 2 => 4000u16..9000], prop_oneof![Just(1u64), Just(7u64), Just(100u64), Just(10_000u64)], any::<bool>(), any::<bool>()).prop_flat_map(|(int_keys, n_keys, n, asyn, long_keys)| {
            let n_keys = if n == 1 { n_keys.min(600) } else { n_keys };
            let nk = n_keys.max(1);
            (proptest::option::weighted(0.6, 0..nk), proptest::option::weighted(0.7, prop_oneof![2 => (0..nk / 8 + 1, nk - nk / 8 - 1..nk), 1 => (0..nk / 2 + 1, nk / 4..nk), 1 => (0..nk, 0..nk)]), any::<bool>(), vec((0..nk + 10, -1i8..3), 0..6)).prop_map(move |(cp1, rr, cp2, extra)| C02LCase { int_keys, n_keys, n, cp1, rr, cp2, extra, asyn, long_keys })
        })
    };
    campaign(ctx, acc, "large-index", "C02L", cases, 30, |_| strat(), c02l_run)
}

pub fn replay_c02l(case: serde_json::Value) -> R<CaseMeta> {
    c02l_run(&serde_json::from_value(case).expect("harness: bad C02L case"))
}


// ---------------------------------------------------------------------------------------------
// C13 / C18 — very large transactions (tens of MiB): abandoned (C13) or finished (C18)

pub const VLT_RULE_C13: &str = "very large abandoned transactions: on a store that holds a committed value under the key and one other key, a transaction writes 1-64 MiB (+0..8191 bytes) in chunks of 64 KiB / 1 MiB / 4 MiB, then 0-3 small writes of 1-8191 bytes, and is dropped without finish. Oracle: index and log files are byte-identical to before, the listing of cas/ is unchanged, staging/ is empty, both keys read their old bytes; after a reopen the same holds. non-trivial = >=16 MiB written with a small write at the end; distinct by case hash";
pub const VLT_RULE_C18: &str = "very large contents: 1-64 MiB (+0..8191 bytes) delivered in chunks of 64 KiB / 1 MiB / 4 MiB followed by 0-3 small writes of 1-8191 bytes and finished. Oracle: the committed item is {one-shot blake3 of the whole content, length}, the file sits at the harness-derived path with exactly the bytes, nothing else is under cas/, staging/ is empty. non-trivial = >=16 MiB; distinct by case hash";

#[derive(Clone, Debug, Serialize, Deserialize)]
pub struct VltCase {
    pub mib: u8,
    pub delta: u16,
    pub chunk_kib: u16,
    pub tails: Vec<u16>,
    pub finish: bool,
}

fn vlt_run(case: &VltCase) -> R<CaseMeta> {
    let mut m = CaseMeta { evals: 1, ..Default::default() };
    let scratch = Scratch::new("vlt");
    let db = scratch.db();
    let cas = Cas::<String>::open(&db, cfg_n(100, false)).map_err(|e| Fail::new("open-err", format!("{e:?}")))?;
    let old_a = gen_content(1, 5000);
    let old_b = gen_content(2, 17);
    for (k, c) in [("a", &old_a), ("b", &old_b)] {
        let mut tx = cas.put(k.to_string()).map_err(|e| Fail::new("op-err/put", format!("{e:?}")))?;
        tx.write(c).map_err(|e| Fail::new("op-err/write", format!("{e:?}")))?;
        tx.finish().map_err(|e| Fail::new("op-err/finish", format!("{e:?}")))?;
    }
    let tails_len: usize = case.tails.iter().map(|t| (*t as usize).clamp(1, 8191)).sum();
    let head_len = case.mib as usize * 1024 * 1024 + case.delta as usize % 8192;
    let content = gen_content(77 + case.mib as u64, head_len + tails_len);
    let files_before: BTreeMap<String, u64> = list_files(&db.join("cas"));
    let meta_before: BTreeMap<String, Vec<u8>> = snapshot_tree(&db).into_iter().filter(|(k, _)| !k.starts_with("cas/") && !k.starts_with("staging/")).collect();
    {
        let mut tx = cas.put("a".to_string()).map_err(|e| Fail::new("op-err/put", format!("{e:?}")))?;
        let chunk = (case.chunk_kib as usize).max(1) * 1024;
        let mut off = 0usize;
        while off < head_len {
            let l = chunk.min(head_len - off);
            tx.write(&content[off..off + l]).map_err(|e| Fail::new("op-err/write", format!("{e:?}")))?;
            off += l;
        }
        for t in &case.tails {
            let l = (*t as usize).clamp(1, 8191);
            tx.write(&content[off..off + l]).map_err(|e| Fail::new("op-err/write", format!("{e:?}")))?;
            off += l;
        }
        if case.finish {
            tx.finish().map_err(|e| Fail::new("op-err/finish", format!("{e:?}")))?;
        } else {
            drop(tx);
        }
    }
    let what = format!("{} MiB + {} bytes in {} KiB chunks, then small writes {:?}", case.mib, case.delta % 8192, case.chunk_kib, case.tails);
    let staging: Vec<String> = list_files(&db.join("staging")).into_keys().collect();
    if case.finish {
        let h = b3(&content);
        match cas.read_index_state().get_item(&"a".to_string()) {
            Some(i) if *i.blob_hash.as_bytes() == h && i.blob_size == content.len() as u64 => {}
            other => fail!("ident/item", "content of {what}: committed item {other:?}, expected hash {} size {}", &hexs(&h)[..12], content.len()),
        }
        match std::fs::read(db.join("cas").join(rel_path_of(&h))) {
            Ok(d) if d == content => {}
            Ok(d) => fail!("ident/file-bytes", "content of {what}: the file at the derived path holds {} other bytes", d.len()),
            Err(e) => fail!("ident/file-missing", "content of {what}: no file at the derived path: {e}"),
        }
        let files: Vec<String> = list_files(&db.join("cas")).into_keys().collect();
        let mut want = vec![rel_path_of(&h), rel_path_of(&b3(&old_b))];
        want.sort();
        if files != want {
            fail!("ident/extra-files", "after the put cas/ holds {files:?}");
        }
        if !staging.is_empty() {
            fail!("ident/staging-leftover", "after finish staging/ holds {staging:?}");
        }
    } else {
        if !staging.is_empty() {
            fail!("abort/staging-leftover", "after dropping a transaction of {what} staging/ still holds {staging:?}");
        }
        if list_files(&db.join("cas")) != files_before {
            fail!("abort/abort-changed-cas", "dropping a transaction of {what} changed the files under cas/");
        }
        let meta_after: BTreeMap<String, Vec<u8>> = snapshot_tree(&db).into_iter().filter(|(k, _)| !k.starts_with("cas/") && !k.starts_with("staging/")).collect();
        if meta_after != meta_before {
            fail!("abort/abort-changed-log-or-index", "dropping a transaction of {what} changed index / log / settings files");
        }
        let check_values = |handle: &Cas<String>, round: &str| -> R<()> {
            for (k, c) in [("a", &old_a), ("b", &old_b)] {
                match handle.get(&k.to_string()) {
                    Ok(Some(b)) if b[..] == c[..] => {}
                    other => fail!("abort/value-changed", "after an abandoned transaction of {what} ({round}) get({k}) = {:?}", other.map(|o| o.map(|b| b.len()))),
                }
            }
            Ok(())
        };
        check_values(&cas, "same handle")?;
        drop(cas);
        let h2 = Cas::<String>::open(&db, cfg_n(100, true)).map_err(|e| Fail::new(format!("abort/reopen-fails/{}", err_path(&e)), format!("reopen after an abandoned transaction of {what}: {e:?}")))?;
        check_values(&h2, "after a reopen")?;
        let st: Vec<String> = list_files(&db.join("staging")).into_keys().collect();
        if !st.is_empty() {
            fail!("abort/staging-leftover", "after a reopen staging/ holds {st:?}");
        }
    }
    if case.mib >= 16 && (case.finish || !case.tails.is_empty()) {
        m.nontrivial.push(hash_json(case));
    }
    m.class(&format!("vlt_{}mib", case.mib));
    Ok(m)
}

fn vlt_strategy(finish: bool) -> impl Strategy<Value = VltCase> {
    (
        prop_oneof![2 => Just(1u8), 2 => Just(4u8), 1 => Just(8u8), 3 => Just(16u8), 2 => Just(17u8), 2 => Just(32u8), 1 => Just(33u8), 1 => Just(64u8)],
        prop_oneof![Just(0u16), 0u16..8192],
        prop_oneof![Just(64u16), Just(1024u16), Just(4096u16)],
        vec(prop_oneof![2 => 1u16..200, 1 => 1u16..8192], 0..4),
    )
        .prop_map(move |(mib, delta, chunk_kib, tails)| VltCase { mib, delta, chunk_kib, tails, finish })
}

pub fn run_vlt(ctx: &Ctx, acc: &Mutex<Acc>, finish: bool) -> Option<Violation> {
    let cases = ctx.tier.scale(1, 6);
    // at most 4 such cases at a time: each holds up to 2 x 64 MiB
    campaign(ctx, acc, if finish { "very-large-contents" } else { "very-large-abandoned" }, "VLT", cases, 12, |_| vlt_strategy(finish), vlt_run)
}

pub fn replay_vlt(case: serde_json::Value) -> R<CaseMeta> {
    vlt_run(&serde_json::from_value(case).expect("harness: bad VLT case"))
}

// =============================================================================================
// C10

pub const C10_RULE: &str = "damaged log: generated histories (String keys incl. a 9000-byte key; put/remove/remove_range/optional explicit checkpoint; N in {1,2,3,4,100}) are run and closed cleanly; the un-checkpointed records are located with the independent reader; then (i) the concatenated log is TRUNCATED at byte offsets of the un-checkpointed region (all offsets within 50 bytes of a record boundary and every 5th elsewhere in quick, ALL offsets in thorough; cutting inside segment i also removes segments >i) and (ii) bytes of the checksum and payload fields of every un-checkpointed record are ALTERED (^0x01, ^0x80, =0x00/0xFF; every byte for records <=300 bytes, every 7th beyond in quick; all in thorough). A second part lays the records of a history out again as segments of N in {1,2,3,4} records with a snapshot at a generated version (the state of a store whose rollover checkpoints were not persisted), so the un-checkpointed tail spans several sealed segments, and applies the same damage. Oracle: Cas::open never panics; Err is accepted; Ok => recovered key->{hash,size} equals the model after the longest undamaged prefix. evaluations = opens of damaged copies; non-trivial = damage inside a record that is not the last, inside a multi-key Remove record, or in a non-last segment; distinct by (history, damage)";

#[derive(Clone, Debug, Serialize, Deserialize)]
pub struct C10Case {
    pub n: u64,
    /// (op kind, key index, content): 0 put, 1 remove, 2 remove_range(all keys <= k), 3 checkpoint
    pub ops: Vec<(u8, u8, u8)>,
    /// restrict to one damage (replay of a shrunk failure)
    pub only: Option<C10Damage>,
    /// re-segment the log: the history runs with one huge segment and no checkpoint; its records are
    /// then laid out as segments of `n` records with a snapshot at version `snap_at` (capped), which
    /// is the state a store is in when rollover checkpoints did not get persisted: the
    /// un-checkpointed tail spans several segments
    #[serde(default)]
    pub resegment: Option<u8>,
}

#[derive(Clone, Debug, Serialize, Deserialize, PartialEq)]
pub enum C10Damage {
    /// segment id, offset within that segment
    Truncate(u64, usize),
    /// segment id, offset, new byte value
    Alter(u64, usize, u8),
}

fn c10_keys() -> Vec<String> {
    vec!["".into(), "a".into(), "b".into(), "k".repeat(300), "L".repeat(9000), "zz".into()]
}

fn c10_run(case: &C10Case, thorough: bool) -> R<CaseMeta> {
    let scratch = Scratch::new("c10");
    let db = scratch.db();
    let keys = c10_keys();
    let mut m = CaseMeta::default();
    let h = hash_json(&(&case.n, &case.ops));
    let run_n = if case.resegment.is_some() { 1_000_000 } else { case.n };
    {
        let cas = Cas::<String>::open(&db, cfg_n(run_n, false)).map_err(|e| Fail::new("open-err", format!("{e:?}")))?;
        for (kind, k, c) in &case.ops {
            if case.resegment.is_some() && kind % 4 == 3 {
                continue;
            }
            let key = keys[(*k as usize).min(keys.len() - 1)].clone();
            let r: Result<(), LibError> = (|| {
                match kind % 4 {
                    0 => {
                        let mut tx = cas.put(key)?;
                        tx.write(&pool_content((*c as usize) % 3)).map_err(|e| LibError::Io { operation: cassadilia::LibIoOperation::WriteStagingFile, path: None, source: std::io::Error::other(format!("{e:?}")) })?;
                        tx.finish()?;
                    }
                    1 => {
                        cas.remove(&key)?;
                    }
                    2 => {
                        cas.remove_range(..=key)?;
                    }
                    _ => cas.checkpoint()?,
                }
                Ok(())
            })();
            if let Err(e) = r {
                fail!("op-err", "history op failed in an error-free environment: {e:?}");
            }
        }
    }
    let db = if let Some(snap_at) = case.resegment {
        // lay the records out again with segments of case.n records and a snapshot at snap_at
        let d0 = match ondisk::read_disk(&db) {
            Ok(d) => d,
            Err(e) => fail!("damaged-log/base-malformed", "cleanly closed store is rejected by the independent reader: {e}"),
        };
        let recs: Vec<ondisk::Rec> = d0.all_records().cloned().collect();
        if recs.is_empty() || d0.snap.is_some() {
            m.discarded = true;
            return Ok(m);
        }
        let n2 = case.n.max(1);
        let sv = (snap_at as u64).min(recs.len() as u64 - 1);
        let db2 = scratch.path.join("reseg");
        std::fs::create_dir_all(&db2).expect("harness: mkdir");
        std::fs::write(db2.join("db_settings.json"), format!("{{\"version\":4,\"dir_tree_is_pre_created\":false,\"num_ops_per_wal\":{n2}}}")).expect("harness: write");
        if sv > 0 {
            let mut st = ondisk::State::new();
            for r in recs.iter().filter(|r| r.version <= sv) {
                ondisk::apply(&mut st, &r.op);
            }
            let entries: Vec<(Vec<u8>, [u8; 32], u64)> = st.into_iter().map(|(k, (h, z))| (k, h, z)).collect();
            std::fs::write(db2.join("index"), ondisk::encode_snapshot(sv, &entries)).expect("harness: write");
        }
        // pruning keeps the segment that contains the snapshot version
        let first_seg = if sv == 0 { 0 } else { (sv - 1) / n2 };
        let last_seg = (recs.last().unwrap().version - 1) / n2;
        for seg in first_seg..=last_seg {
            let mut bytes = Vec::new();
            for r in recs.iter().filter(|r| (r.version - 1) / n2 == seg) {
                bytes.extend_from_slice(&ondisk::encode_record(r.version, &r.payload));
            }
            if seg != last_seg {
                bytes.extend_from_slice(&[0u8; ondisk::HDR]);
            }
            std::fs::write(db2.join(format!("{seg}_index.wal")), bytes).expect("harness: write");
        }
        m.class("resegmented_log");
        db2
    } else {
        db
    };
    let disk = match ondisk::read_disk(&db) {
        Ok(d) => d,
        Err(e) => fail!("damaged-log/base-malformed", "cleanly closed store is rejected by the independent reader: {e}"),
    };
    if case.resegment.is_some() {
        // sanity: the undamaged re-segmented store must open and show the full history
        let mut full = ondisk::State::new();
        if let Some(sn) = &disk.snap {
            for (k, hh, z) in &sn.entries {
                full.insert(k.clone(), (*hh, *z));
            }
        }
        for r in disk.all_records().filter(|r| r.version > disk.snap_version()) {
            ondisk::apply(&mut full, &r.op);
        }
        let chk = scratch.path.join("reseg-check");
        copy_tree(&db, &chk);
        match Cas::<String>::open(&chk, cfg_n(case.n, false)) {
            Ok(cas) => {
                let got: ondisk::State = cas.read_index_state().iter().map(|(k, i)| (k.as_bytes().to_vec(), (*i.blob_hash.as_bytes(), i.blob_size))).collect();
                if got != full {
                    fail!("damaged-log/undamaged-resegmented-log-misread", "a well-formed multi-segment log with an un-checkpointed tail opens with {} keys, the log says {}", got.len(), full.len());
                }
            }
            Err(e) => fail!(format!("damaged-log/undamaged-resegmented-log-rejected/{}", err_path(&e)), "a well-formed multi-segment log is rejected: {e:?}"),
        }
    }
    let sv = disk.snap_version();
    // base files
    let settings = std::fs::read(db.join("db_settings.json")).expect("harness: settings");
    let index = std::fs::read(db.join("index")).ok();
    let segs: Vec<(u64, Vec<u8>)> = disk.segs.iter().map(|s| (s.id, std::fs::read(db.join(format!("{}_index.wal", s.id))).expect("harness: read seg"))).collect();
    // tail records in log order, with prefix states
    let mut state: ondisk::State = ondisk::State::new();
    if let Some(s) = &disk.snap {
        for (k, hh, z) in &s.entries {
            state.insert(k.clone(), (*hh, *z));
        }
    }
    struct T {
        seg: u64,
        seg_idx: usize,
        start: usize,
        end: usize,
        multi_remove: bool,
    }
    let mut tail: Vec<T> = Vec::new();
    let mut states: Vec<ondisk::State> = vec![state.clone()];
    for (si, s) in disk.segs.iter().enumerate() {
        for r in &s.recs {
            if r.version > sv {
                ondisk::apply(&mut state, &r.op);
                states.push(state.clone());
                tail.push(T { seg: s.id, seg_idx: si, start: r.start, end: r.end, multi_remove: matches!(&r.op, ondisk::Op::Remove { keys } if keys.len() >= 2) });
            }
        }
    }
    if tail.is_empty() {
        m.discarded = true;
        return Ok(m);
    }
    let trial = scratch.path.join("trial");
    let last_seg_idx = segs.len() - 1;
    let mut try_open = |files: &[(u64, Vec<u8>)], expect: &ondisk::State, what: &str, dmg: &C10Damage, nontrivial: bool, m: &mut CaseMeta| -> R<()> {
        let _ = std::fs::remove_dir_all(&trial);
        std::fs::create_dir_all(&trial).expect("harness: mkdir trial");
        std::fs::write(trial.join("db_settings.json"), &settings).expect("harness: write");
        if let Some(ix) = &index {
            std::fs::write(trial.join("index"), ix).expect("harness: write");
        }
        for (id, b) in files {
            std::fs::write(trial.join(format!("{id}_index.wal")), b).expect("harness: write");
        }
        m.evals += 1;
        let res = catch_unwind(AssertUnwindSafe(|| Cas::<String>::open(&trial, cfg_n(case.n, false))));
        match res {
            Err(_) => {
                let (msg, loc) = take_panic();
                fail!("damaged-log/panic", "{what} ({dmg:?}): open panicked: {msg} at {loc}");
            }
            Ok(Err(_)) => {
                m.class("open_rejected");
            }
            Ok(Ok(cas)) => {
                let got: ondisk::State = cas.read_index_state().iter().map(|(k, i)| (k.as_bytes().to_vec(), (*i.blob_hash.as_bytes(), i.blob_size))).collect();
                if &got != expect {
                    fail!("damaged-log/accepted-with-wrong-state", "{what} ({dmg:?}): open succeeded with {} keys, the longest undamaged prefix gives {}", got.len(), expect.len());
                }
                m.class("open_accepted_prefix");
            }
        }
        if nontrivial {
            m.nontrivial.push(mix(h, hash_json(dmg), 10, 0));
        }
        Ok(())
    };
    // (i) truncation
    let region_start = (tail[0].seg_idx, tail[0].start);
    for (si, (id, bytes)) in segs.iter().enumerate() {
        if si < region_start.0 {
            continue;
        }
        let lo = if si == region_start.0 { region_start.1 } else { 0 };
        let bounds: Vec<usize> = tail.iter().filter(|t| t.seg_idx == si).flat_map(|t| [t.start, t.end]).collect();
        for off in lo..bytes.len() {
            let dmg = C10Damage::Truncate(*id, off);
            if let Some(o) = &case.only {
                if *o != dmg {
                    continue;
                }
            } else if !thorough {
                let near = bounds.iter().any(|b| (off as i64 - *b as i64).abs() <= 50);
                if !near && off % 5 != 0 {
                    continue;
                }
            }
            // complete tail records before the cut
            let j = tail.iter().filter(|t| t.seg_idx < si || (t.seg_idx == si && t.end <= off)).count();
            let mut files: Vec<(u64, Vec<u8>)> = segs[..si].to_vec();
            files.push((*id, bytes[..off].to_vec()));
            let nontrivial = j + 1 < tail.len() || si < last_seg_idx || tail.get(j).is_some_and(|t| t.multi_remove);
            try_open(&files, &states[j], "truncation", &dmg, nontrivial, &mut m)?;
        }
    }
    // (ii) alteration of checksum / payload bytes
    for (ti, t) in tail.iter().enumerate() {
        let (id, bytes) = &segs[t.seg_idx];
        let reclen = t.end - t.start;
        for off in (t.start + 8)..t.end {
            if (t.start + 40..t.start + 44).contains(&off) {
                continue; // length field: outside the statement
            }
            if case.only.is_none() && !thorough && reclen > 300 && (off - t.start) % 7 != 0 && (t.end - off) > 8 && (off - t.start) > 60 {
                continue;
            }
            let old = bytes[off];
            for nv in [old ^ 0x01, old ^ 0x80, if old == 0 { 0xFF } else { 0 }] {
                let dmg = C10Damage::Alter(*id, off, nv);
                if let Some(o) = &case.only {
                    if *o != dmg {
                        continue;
                    }
                }
                let mut files = segs.clone();
                files[t.seg_idx].1[off] = nv;
                let nontrivial = ti + 1 < tail.len() || t.seg_idx < last_seg_idx || t.multi_remove;
                try_open(&files, &states[ti], "alteration", &dmg, nontrivial, &mut m)?;
            }
        }
        let _ = t.seg;
    }
    m.class(&format!("tail_records_{}", tail.len().min(9)));
    m.class(&format!("segments_{}", segs.len().min(5)));
    Ok(m)
}

pub fn run_c10(ctx: &Ctx, acc: &Mutex<Acc>) -> Option<Violation> {
    let cases = ctx.tier.scale(8, 4);
    let thorough = ctx.tier == Tier::Thorough;
    let strat = || {
        (
            prop_oneof![2 => Just(1u64), 2 => Just(2u64), 2 => Just(3u64), 1 => Just(4u64), 3 => Just(100u64)],
            vec((prop_oneof![6 => Just(0u8), 2 => Just(1u8), 2 => Just(2u8), 1 => Just(3u8)], prop_oneof![8 => 0u8..4, 1 => Just(4u8), 1 => Just(5u8)], 0u8..3), 2..14),
        )
            .prop_map(|(n, ops)| C10Case { n, ops, only: None, resegment: None })
    };
    if let Some(v) = campaign(ctx, acc, "truncate-and-alter", "C10", cases, 40, |_| strat(), move |c| c10_run(c, thorough)) {
        return Some(v);
    }
    // multi-segment un-checkpointed tails (re-segmented logs)
    let strat2 = || {
        (
            prop_oneof![Just(1u64), Just(2u64), Just(3u64), Just(4u64)],
            vec((prop_oneof![6 => Just(0u8), 2 => Just(1u8), 2 => Just(2u8)], prop_oneof![8 => 0u8..4, 1 => Just(5u8)], 0u8..3), 3..12),
            0u8..8,
        )
            .prop_map(|(n, ops, snap)| C10Case { n, ops, only: None, resegment: Some(snap) })
    };
    campaign(ctx, acc, "resegmented-multi-segment-tail", "C10", cases, 40, |_| strat2(), move |c| c10_run(c, thorough))
}

pub fn replay_c10(case: serde_json::Value) -> R<CaseMeta> {
    c10_run(&serde_json::from_value(case).expect("harness: bad C10 case"), true)
}

// =============================================================================================
// C16

pub const C16_RULE: &str = "codecs: (a) structured round-trips — WalOpRaw and WalOp<K> for K in {String, Vec<u8>, [u8;3], u64, i32, u8, i128} (pool keys, arbitrary bytes 0-300, a 70000-byte key, Remove lists of 0-40 keys incl. empty keys and duplicates), index snapshots (0-60 entries of byte keys, version None/1/u64::MAX, sizes 0/2^32/2^64-1) and TYPED index snapshots (maps keyed by each of u8..u128/i8..i128, Vec<u8>, [u8;3], String — written in the key type's order, which differs from the order of the encoded bytes for integers; all ordered pairs from an edge set of 12 integers exhaustively, 0-24 random entries beyond), every KeyBytes impl (u8/i8 exhaustively, edges+random for wider ints, arrays, String incl. multi-byte, Vec); (b) bytes — ALL strings of length <=2 exhaustively, random bytes up to 4 KiB, and mutations of valid encodings (truncation at every offset, every length/count field bumped to n+-1, 2^31, 2^32-1, tag flips) fed to the op decoder, the snapshot decoder, WalOp::from_raw, BlobHash::from_hex/from_relative_path, the framed segment reader and (as files) Cas::open. Oracle: decode(encode(v)) == v; decoders return Ok/Err and never panic (overflow checks on); Ok(v) re-encodes and re-decodes to v; peak heap of the op and snapshot decoders <= 64 x input length + 4 KiB (counting allocator; a with_capacity(count) on an input-controlled count fails this by orders of magnitude). non-trivial = structured value with a non-empty key (and >=2 keys for Remove), or a byte string that decodes successfully or is a mutation of a valid encoding; distinct by content hash";

#[derive(Clone, Debug, Serialize, Deserialize)]
pub enum C16Case {
    Op { put: bool, keys: Vec<Vec<u8>>, hash_seed: u8, size: u64 },
    Snap { version: u64, entries: Vec<(Vec<u8>, u8, u64)> },
    Bytes { data: Vec<u8> },
    /// mutate a valid encoding: which (0 op,1 snapshot), base value seeds, mutation selector
    Mut { snap: bool, keys: Vec<Vec<u8>>, sel: u16, val: u8 },
    Path { s: String },
    Key { bytes: Vec<u8>, n: i128 },
    /// snapshot of a typed map: every integer key type gets the keys `n as K`; String/Vec/[u8;3] get keys built from n
    SnapTyped { version: u64, entries: Vec<(i128, u8, u64)> },
}

fn hash_of(seed: u8) -> [u8; 32] {
    let mut h = [seed; 32];
    h[0] = seed.wrapping_mul(31);
    h[31] = !seed;
    h
}

fn raw_eq(a: &WalOpRaw, b: &WalOpRaw) -> bool {
    match (a, b) {
        (WalOpRaw::Put { key_bytes: k1, hash: h1, size: s1 }, WalOpRaw::Put { key_bytes: k2, hash: h2, size: s2 }) => k1 == k2 && h1 == h2 && s1 == s2,
        (WalOpRaw::Remove { keys_bytes: a }, WalOpRaw::Remove { keys_bytes: b }) => a == b,
        _ => false,
    }
}

fn alloc_bound(len: usize) -> u64 {
    64 * len as u64 + 4096
}

fn decode_op_checked(data: &[u8], what: &str) -> R<Option<WalOpRaw>> {
    let (res, peak, _) = measure(|| catch_unwind(AssertUnwindSafe(|| cassadilia::verif::deserialize_wal_op_raw(data))));
    let res = match res {
        Ok(r) => r,
        Err(_) => {
            let (msg, loc) = take_panic();
            fail!("codec/op-decoder-panic", "{what}: op decoder panicked on {} bytes: {msg} at {loc}", data.len());
        }
    };
    if peak > alloc_bound(data.len()) {
        fail!("codec/op-decoder-allocation", "{what}: op decoder allocated {peak} bytes for an input of {} bytes", data.len());
    }
    match res {
        Err(_) => Ok(None),
        Ok(v) => {
            let re = cassadilia::verif::serialize_wal_op_raw(&v).map_err(|e| Fail::new("codec/op-reencode-fails", e))?;
            match cassadilia::verif::deserialize_wal_op_raw(&re) {
                Ok(v2) if raw_eq(&v, &v2) => Ok(Some(v)),
                _ => fail!("codec/op-reencode-roundtrip", "{what}: decoded value does not survive re-encoding"),
            }
        }
    }
}

fn decode_snap_checked(data: &[u8], what: &str) -> R<bool> {
    let (res, peak, _) = measure(|| catch_unwind(AssertUnwindSafe(|| cassadilia::verif::deserialize_index_state(data))));
    let res = match res {
        Ok(r) => r,
        Err(_) => {
            let (msg, loc) = take_panic();
            fail!("codec/snapshot-decoder-panic", "{what}: snapshot decoder panicked on {} bytes: {msg} at {loc}", data.len());
        }
    };
    if peak > alloc_bound(data.len()) {
        fail!("codec/snapshot-decoder-allocation", "{what}: snapshot decoder allocated {peak} bytes for an input of {} bytes", data.len());
    }
    match res {
        Err(_) => Ok(false),
        Ok((map, ver)) => {
            let re = cassadilia::verif::serialize_index_state(&map, ver);
            match cassadilia::verif::deserialize_index_state(&re) {
                Ok((m2, v2)) if m2 == map && v2 == ver => Ok(true),
                _ => fail!("codec/snapshot-reencode-roundtrip", "{what}: decoded snapshot does not survive re-encoding"),
            }
        }
    }
}

fn typed_roundtrip<K: HKey>(raw: &WalOpRaw) -> R<bool> {
    // from_raw is total; if it yields a value, to_raw must give back the same raw op
    let r = catch_unwind(AssertUnwindSafe(|| WalOp::<K>::from_raw(raw.clone())));
    match r {
        Err(_) => {
            let (msg, loc) = take_panic();
            fail!("codec/from_raw-panic", "WalOp::<{}>::from_raw panicked: {msg} at {loc}", K::NAME);
        }
        Ok(Err(_)) => Ok(false),
        Ok(Ok(op)) => {
            let back = op.to_raw();
            if !raw_eq(&back, raw) {
                fail!("codec/walop-raw-roundtrip", "to_raw(from_raw(x)) != x for key type {}", K::NAME);
            }
            match WalOp::<K>::from_raw(back) {
                Ok(op2) if op2 == op => Ok(true),
                _ => fail!("codec/walop-roundtrip", "from_raw(to_raw(op)) != op for key type {}", K::NAME),
            }
        }
    }
}

/// A snapshot is written from a map ordered by `K: Ord` (which is not the order of the encoded bytes for
/// integers); it must decode to exactly the entries that went in, for every key type.
fn snap_typed<K: HKey>(version: u64, entries: &[(K, u8, u64)]) -> R<usize> {
    let mut map: BTreeMap<K, cassadilia::IndexStateItem> = BTreeMap::new();
    for (k, hs, sz) in entries {
        map.insert(k.clone(), cassadilia::IndexStateItem { blob_hash: BlobHash::from_bytes(hash_of(*hs)), blob_size: *sz });
    }
    let ver = NonZeroU64::new(version);
    let enc = cassadilia::verif::serialize_index_state(&map, ver);
    let ind = ondisk::encode_snapshot(version, &map.iter().map(|(k, i)| (k.to_key_bytes_owned(), *i.blob_hash.as_bytes(), i.blob_size)).collect::<Vec<_>>());
    if enc != ind {
        fail!("codec/snapshot-encoding-differs-from-format", "snapshot encoder output differs from the documented format for key type {}", K::NAME);
    }
    let (res, peak, _) = measure(|| catch_unwind(AssertUnwindSafe(|| cassadilia::verif::deserialize_index_state(&enc))));
    let res = match res {
        Ok(r) => r,
        Err(_) => {
            let (msg, loc) = take_panic();
            fail!("codec/snapshot-decoder-panic", "snapshot decoder panicked on a valid snapshot with {} keys: {msg} at {loc}", K::NAME);
        }
    };
    if peak > alloc_bound(enc.len()) {
        fail!("codec/snapshot-decoder-allocation", "snapshot decoder allocated {peak} bytes for {} input bytes", enc.len());
    }
    let (raw, v2) = match res {
        Ok(x) => x,
        Err(e) => fail!("codec/snapshot-roundtrip", "a snapshot of {} entries with {} keys written by the encoder is rejected by the decoder: {e}", map.len(), K::NAME),
    };
    if v2 != ver {
        fail!("codec/snapshot-roundtrip", "snapshot version {version} decodes as {v2:?} ({} keys)", K::NAME);
    }
    let mut back: BTreeMap<K, cassadilia::IndexStateItem> = BTreeMap::new();
    for (kb, item) in &raw {
        match K::from_key_bytes(kb) {
            Some(k) => {
                back.insert(k, item.clone());
            }
            None => fail!("codec/snapshot-roundtrip", "a key of a decoded snapshot does not parse as {}", K::NAME),
        }
    }
    if back != map || raw.len() != map.len() {
        fail!("codec/snapshot-roundtrip", "decode(encode(snapshot)) != snapshot for key type {} ({} entries)", K::NAME, map.len());
    }
    Ok(map.len())
}

fn key_roundtrip<K: HKey>(k: &K) -> R<()> {
    let b = k.to_key_bytes();
    let owned = k.to_key_bytes_owned();
    if b.as_ref() != &owned[..] {
        fail!("codec/key-bytes-owned-differs", "to_key_bytes and to_key_bytes_owned disagree for {} {k:?}", K::NAME);
    }
    match K::from_key_bytes(b.as_ref()) {
        Some(k2) if k2 == *k => Ok(()),
        other => fail!("codec/key-roundtrip", "from_key_bytes(to_key_bytes({k:?})) = {other:?} for {}", K::NAME),
    }
}

fn key_decode_total<K: HKey>(bytes: &[u8]) -> R<()> {
    match catch_unwind(AssertUnwindSafe(|| K::from_key_bytes(bytes))) {
        Err(_) => {
            let (msg, loc) = take_panic();
            fail!("codec/key-decoder-panic", "{}::from_key_bytes panicked: {msg} at {loc}", K::NAME);
        }
        Ok(None) => Ok(()),
        Ok(Some(k)) => {
            if k.to_key_bytes_owned() != bytes {
                fail!("codec/key-decode-reencode", "{}::from_key_bytes accepted {} bytes that re-encode differently", K::NAME, bytes.len());
            }
            Ok(())
        }
    }
}

fn path_checks(s: &str) -> R<bool> {
    let r1 = catch_unwind(AssertUnwindSafe(|| BlobHash::from_hex(s)));
    let r2 = catch_unwind(AssertUnwindSafe(|| BlobHash::from_relative_path(Path::new(s))));
    let (Ok(r1), Ok(r2)) = (r1, r2) else {
        let (msg, loc) = take_panic();
        fail!("codec/path-decoder-panic", "blob path / hex decoder panicked on {s:?}: {msg} at {loc}");
    };
    let mut ok = false;
    if let Ok(h) = r1 {
        ok = true;
        if !h.to_hex().eq_ignore_ascii_case(s) {
            fail!("codec/from_hex-roundtrip", "from_hex({s:?}).to_hex() = {}", h.to_hex());
        }
    }
    if let Ok(h) = r2 {
        ok = true;
        // whatever parses as a blob path must denote the hash whose canonical path has the same hex digits
        let digits: String = s.chars().filter(|c| c.is_ascii_hexdigit()).collect();
        if !digits.to_ascii_lowercase().ends_with(&h.to_hex()) {
            fail!("codec/path-parse-wrong-hash", "from_relative_path({s:?}) = {}", h.to_hex());
        }
    }
    Ok(ok)
}

fn segment_checks(data: &[u8], scratch: &Scratch) -> R<bool> {
    let f = scratch.path.join("seg.wal");
    std::fs::write(&f, data).expect("harness: write seg");
    let r = catch_unwind(AssertUnwindSafe(|| cassadilia::verif::read_segment(&f)));
    let recs = match r {
        Err(_) => {
            let (msg, loc) = take_panic();
            fail!("codec/segment-reader-panic", "framed segment reader panicked on {} bytes: {msg} at {loc}", data.len());
        }
        Ok(Err(_)) => return Ok(false),
        Ok(Ok(v)) => v,
    };
    // every record it yields must be a checksummed frame present in the input
    let mut p = 0usize;
    for (ver, payload) in &recs {
        let frame = ondisk::encode_record(*ver, payload);
        if data.len() < p + frame.len() || data[p..p + frame.len()] != frame[..] {
            fail!("codec/segment-reader-invented-record", "segment reader returned record v{ver} ({} bytes) that is not a valid frame at offset {p}", payload.len());
        }
        p += frame.len();
    }
    // and as a file of a store
    let db = scratch.path.join("segdb");
    let _ = std::fs::remove_dir_all(&db);
    std::fs::create_dir_all(&db).expect("harness: mkdir");
    std::fs::write(db.join("0_index.wal"), data).expect("harness: write");
    let r = catch_unwind(AssertUnwindSafe(|| Cas::<Vec<u8>>::open(&db, cfg_n(10_000, false)).map(|_| ())));
    if r.is_err() {
        let (msg, loc) = take_panic();
        fail!("codec/open-panic-on-segment", "Cas::open panicked on a store whose only segment holds {} arbitrary bytes: {msg} at {loc}", data.len());
    }
    Ok(!recs.is_empty())
}

fn index_file_checks(data: &[u8], scratch: &Scratch) -> R<()> {
    let db = scratch.path.join("idxdb");
    let _ = std::fs::remove_dir_all(&db);
    std::fs::create_dir_all(&db).expect("harness: mkdir");
    std::fs::write(db.join("index"), data).expect("harness: write");
    let r = catch_unwind(AssertUnwindSafe(|| Cas::<Vec<u8>>::open(&db, cfg_n(10_000, false)).map(|_| ())));
    if r.is_err() {
        let (msg, loc) = take_panic();
        fail!("codec/open-panic-on-index", "Cas::open panicked on a store whose index holds {} arbitrary bytes: {msg} at {loc}", data.len());
    }
    Ok(())
}

fn mk_op(put: bool, keys: &[Vec<u8>], hash_seed: u8, size: u64) -> WalOpRaw {
    if put {
        WalOpRaw::Put { key_bytes: keys.first().cloned().unwrap_or_default(), hash: BlobHash::from_bytes(hash_of(hash_seed)), size }
    } else {
        WalOpRaw::Remove { keys_bytes: keys.to_vec() }
    }
}

fn all_typed(raw: &WalOpRaw) -> R<u32> {
    let mut n = 0;
    n += typed_roundtrip::<String>(raw)? as u32;
    n += typed_roundtrip::<Vec<u8>>(raw)? as u32;
    n += typed_roundtrip::<[u8; 3]>(raw)? as u32;
    n += typed_roundtrip::<u64>(raw)? as u32;
    n += typed_roundtrip::<i32>(raw)? as u32;
    n += typed_roundtrip::<u8>(raw)? as u32;
    n += typed_roundtrip::<i128>(raw)? as u32;
    Ok(n)
}

fn c16_run(case: &C16Case) -> R<CaseMeta> {
    crate::alloc::set_case_ctx("C16", "C16", &serde_json::to_value(case).unwrap_or_default(), "codec");
    let mut m = CaseMeta { evals: 1, ..Default::default() };
    let id = hash_json(case);
    match case {
        C16Case::Op { put, keys, hash_seed, size } => {
            let op = mk_op(*put, keys, *hash_seed, *size);
            let enc = cassadilia::verif::serialize_wal_op_raw(&op).map_err(|e| Fail::new("codec/op-encode-fails", e))?;
            // the independent encoder must agree byte for byte (documented format)
            let ind = match &op {
                WalOpRaw::Put { key_bytes, hash, size } => ondisk::encode_op(&ondisk::Op::Put { key: key_bytes.clone(), hash: *hash.as_bytes(), size: *size }),
                WalOpRaw::Remove { keys_bytes } => ondisk::encode_op(&ondisk::Op::Remove { keys: keys_bytes.clone() }),
            };
            if enc != ind {
                fail!("codec/op-encoding-differs-from-format", "encoder output differs from the documented format for {:?}", case);
            }
            match decode_op_checked(&enc, "valid op")? {
                Some(back) if raw_eq(&back, &op) => {}
                _ => fail!("codec/op-roundtrip", "decode(encode(op)) != op for {:?}", case),
            }
            all_typed(&op)?;
            let nonempty = keys.iter().any(|k| !k.is_empty());
            if nonempty && (*put || keys.len() >= 2) {
                m.nontrivial.push(id);
            }
            m.class(if *put { "op_put" } else { "op_remove" });
        }
        C16Case::Snap { version, entries } => {
            let mut map: BTreeMap<Vec<u8>, cassadilia::IndexStateItem> = BTreeMap::new();
            for (k, hs, sz) in entries {
                map.insert(k.clone(), cassadilia::IndexStateItem { blob_hash: BlobHash::from_bytes(hash_of(*hs)), blob_size: *sz });
            }
            let ver = NonZeroU64::new(*version);
            let enc = cassadilia::verif::serialize_index_state(&map, ver);
            let ind = ondisk::encode_snapshot(*version, &map.iter().map(|(k, i)| (k.clone(), *i.blob_hash.as_bytes(), i.blob_size)).collect::<Vec<_>>());
            if enc != ind {
                fail!("codec/snapshot-encoding-differs-from-format", "snapshot encoder output differs from the documented format");
            }
            let (res, peak, _) = measure(|| cassadilia::verif::deserialize_index_state(&enc));
            match res {
                Ok((m2, v2)) if m2 == map && v2 == ver => {}
                _ => fail!("codec/snapshot-roundtrip", "decode(encode(snapshot)) != snapshot ({} entries, version {version})", map.len()),
            }
            if peak > alloc_bound(enc.len()) {
                fail!("codec/snapshot-decoder-allocation", "snapshot decoder allocated {peak} bytes for {} input bytes", enc.len());
            }
            if map.keys().any(|k| !k.is_empty()) {
                m.nontrivial.push(id);
            }
            m.class("snapshot");
        }
        C16Case::Bytes { data } => {
            let scratch = Scratch::new("c16");
            let a = decode_op_checked(data, "arbitrary bytes")?;
            if let Some(op) = &a {
                all_typed(op)?;
            }
            let b = decode_snap_checked(data, "arbitrary bytes")?;
            let c = segment_checks(data, &scratch)?;
            index_file_checks(data, &scratch)?;
            for kt in 0..7 {
                match kt {
                    0 => key_decode_total::<String>(data)?,
                    1 => key_decode_total::<Vec<u8>>(data)?,
                    2 => key_decode_total::<[u8; 3]>(data)?,
                    3 => key_decode_total::<u64>(data)?,
                    4 => key_decode_total::<i32>(data)?,
                    5 => key_decode_total::<u8>(data)?,
                    _ => key_decode_total::<i128>(data)?,
                }
            }
            if a.is_some() || b || c {
                m.nontrivial.push(id);
                m.class("bytes_decoded_ok");
            }
            m.class("bytes");
        }
        C16Case::Mut { snap, keys, sel, val } => {
            let scratch = Scratch::new("c16m");
            let base = if *snap {
                let entries: Vec<(Vec<u8>, [u8; 32], u64)> = keys.iter().enumerate().map(|(i, k)| (k.clone(), hash_of(i as u8), i as u64 * 1000)).collect();
                let mut e = entries;
                e.sort();
                e.dedup_by(|a, b| a.0 == b.0);
                ondisk::encode_snapshot(*val as u64, &e)
            } else if keys.len() % 2 == 0 {
                ondisk::encode_op(&ondisk::Op::Put { key: keys.first().cloned().unwrap_or_default(), hash: hash_of(*val), size: *val as u64 })
            } else {
                ondisk::encode_op(&ondisk::Op::Remove { keys: keys.clone() })
            };
            // mutation: choose by sel
            let mut data = base.clone();
            let kind = sel % 4;
            let pos = (*sel as usize / 4) % data.len().max(1);
            match kind {
                0 => data.truncate(pos),
                1 => {
                    // bump a 4-byte little-endian field starting at pos (length/count fields among them)
                    if pos + 4 <= data.len() {
                        let cur = u32::from_le_bytes(data[pos..pos + 4].try_into().unwrap());
                        let nv = match val % 5 {
                            0 => cur.wrapping_add(1),
                            1 => cur.wrapping_sub(1),
                            2 => 1 << 31,
                            3 => u32::MAX,
                            _ => cur.wrapping_add(*val as u32),
                        };
                        data[pos..pos + 4].copy_from_slice(&nv.to_le_bytes());
                    }
                }
                2 => {
                    if !data.is_empty() {
                        data[0] = *val;
                    }
                }
                _ => {
                    if pos < data.len() {
                        data[pos] ^= val | 1;
                    }
                }
            }
            let a = decode_op_checked(&data, "mutated encoding")?;
            if let Some(op) = &a {
                all_typed(op)?;
            }
            decode_snap_checked(&data, "mutated encoding")?;
            // as a framed record inside a segment, and as an index file
            let mut seg = ondisk::encode_record(1, if data.is_empty() { &[0u8][..] } else { &data[..] });
            if *val % 3 == 0 {
                seg.extend_from_slice(&base);
            }
            segment_checks(&seg, &scratch)?;
            index_file_checks(&data, &scratch)?;
            m.nontrivial.push(id);
            m.class(&format!("mutation_kind_{kind}"));
        }
        C16Case::Path { s } => {
            if path_checks(s)? {
                m.nontrivial.push(id);
                m.class("path_parsed");
            }
            m.class("path");
        }
        C16Case::SnapTyped { version, entries } => {
            macro_rules! ints {
                ($($t:ty),*) => {$(
                    snap_typed::<$t>(*version, &entries.iter().map(|(n, h, s)| (*n as $t, *h, *s)).collect::<Vec<_>>())?;
                )*};
            }
            ints!(u8, i8, u16, i16, u32, i32, u64, i64, u128, i128);
            snap_typed::<Vec<u8>>(*version, &entries.iter().map(|(n, h, s)| (n.to_be_bytes()[(*h as usize % 16)..].to_vec(), *h, *s)).collect::<Vec<_>>())?;
            snap_typed::<[u8; 3]>(*version, &entries.iter().map(|(n, h, s)| ([*n as u8, (*n >> 8) as u8, (*n >> 16) as u8], *h, *s)).collect::<Vec<_>>())?;
            snap_typed::<String>(*version, &entries.iter().map(|(n, h, s)| (format!("{}{}", if *n < 0 { "\u{e9}" } else { "" }, n), *h, *s)).collect::<Vec<_>>())?;
            let distinct: std::collections::BTreeSet<i128> = entries.iter().map(|e| e.0).collect();
            if distinct.len() >= 2 {
                m.nontrivial.push(id);
            }
            if distinct.iter().any(|n| *n < 0) && distinct.iter().any(|n| *n > 0) || distinct.iter().any(|n| *n > 255) {
                m.class("snapshot_typed_byte_order_differs");
            }
            m.class("snapshot_typed");
        }
        C16Case::Key { bytes, n } => {
            key_roundtrip::<Vec<u8>>(bytes)?;
            if let Ok(s) = String::from_utf8(bytes.clone()) {
                key_roundtrip::<String>(&s)?;
            }
            let s2: String = String::from_utf8_lossy(bytes).to_string();
            key_roundtrip::<String>(&s2)?;
            if bytes.len() >= 3 {
                key_roundtrip::<[u8; 3]>(&[bytes[0], bytes[1], bytes[2]])?;
            }
            key_roundtrip::<i128>(n)?;
            key_roundtrip::<u128>(&(*n as u128))?;
            key_roundtrip::<u64>(&(*n as u64))?;
            key_roundtrip::<i64>(&(*n as i64))?;
            key_roundtrip::<u32>(&(*n as u32))?;
            key_roundtrip::<i32>(&(*n as i32))?;
            key_roundtrip::<u16>(&(*n as u16))?;
            key_roundtrip::<i16>(&(*n as i16))?;
            key_roundtrip::<u8>(&(*n as u8))?;
            key_roundtrip::<i8>(&(*n as i8))?;
            if !bytes.is_empty() {
                m.nontrivial.push(id);
            }
            m.class("key");
        }
    }
    Ok(m)
}

// extra HKey impls needed only for key round-trips
macro_rules! hkey_int {
    ($($t:ty : $n:expr),*) => {$(
        impl HKey for $t {
            const NAME: &'static str = $n;
            fn pool() -> Vec<Self> { vec![0 as $t, 1 as $t, <$t>::MAX, <$t>::MIN] }
        }
    )*};
}
hkey_int!(u128: "U128", i64: "I64", u32: "U32", u16: "U16", i16: "I16", i8: "I8");

fn key_bytes_strategy() -> BoxedStrategy<Vec<u8>> {
    prop_oneof![
        3 => vec(any::<u8>(), 0..8),
        2 => vec(prop_oneof![Just(0u8), Just(0xffu8)], 0..3),
        2 => "[a-z\u{e9}\u{2211}]{0,12}".prop_map(|s| s.into_bytes()),
        1 => vec(any::<u8>(), 0..300),
        1 => (1usize..17).prop_map(|n| vec![0xabu8; n]),
    ]
    .boxed()
}

pub fn c16_strategy() -> BoxedStrategy<C16Case> {
    let sizes = prop_oneof![Just(0u64), Just(1u64 << 32), Just(u64::MAX), any::<u64>()];
    prop_oneof![
        4 => (any::<bool>(), vec(key_bytes_strategy(), 0..12), any::<u8>(), sizes.clone()).prop_map(|(put, keys, hash_seed, size)| C16Case::Op { put, keys, hash_seed, size }),
        1 => (vec(key_bytes_strategy(), 0..41), any::<u8>()).prop_map(|(keys, hash_seed)| C16Case::Op { put: false, keys, hash_seed, size: 0 }),
        3 => (prop_oneof![Just(0u64), Just(1u64), Just(u64::MAX), any::<u64>()], vec((key_bytes_strategy(), any::<u8>(), sizes), 0..60)).prop_map(|(version, entries)| C16Case::Snap { version, entries }),
        4 => prop_oneof![3 => vec(any::<u8>(), 0..64), 1 => vec(any::<u8>(), 0..4096), 2 => vec(prop_oneof![Just(0u8), Just(1u8), Just(0xffu8), any::<u8>()], 0..80)].prop_map(|data| C16Case::Bytes { data }),
        6 => (any::<bool>(), vec(key_bytes_strategy(), 0..6), any::<u16>(), any::<u8>()).prop_map(|(snap, keys, sel, val)| C16Case::Mut { snap, keys, sel, val }),
        2 => prop_oneof![
            "[0-9a-fA-F]{60,68}",
            "[0-9a-f]{2}/[0-9a-f]{2}/[0-9a-f]{60}",
            "[0-9a-fA-F/]{0,70}",
            "([a-z]{1,4}/){0,3}[0-9a-f]{1,3}/[0-9a-f]{1,3}/[0-9a-f]{58,61}",
            ".{0,40}",
        ].prop_map(|s| C16Case::Path { s }),
        2 => (key_bytes_strategy(), prop_oneof![Just(0i128), Just(-1i128), Just(i128::MAX), Just(i128::MIN), Just(255i128), Just(256i128), any::<i128>()]).prop_map(|(bytes, n)| C16Case::Key { bytes, n }),
        2 => (prop_oneof![Just(0u64), Just(1u64), any::<u64>()], vec((prop_oneof![3 => -300i128..300, 1 => Just(i128::MAX), 1 => Just(i128::MIN), 1 => Just(1i128 << 32), 1 => Just(65_536i128), 2 => any::<i64>().prop_map(|x| x as i128), 2 => any::<i128>()], any::<u8>(), prop_oneof![Just(0u64), Just(u64::MAX), any::<u64>()]), 0..24)).prop_map(|(version, entries)| C16Case::SnapTyped { version, entries }),
    ]
    .boxed()
}

pub fn run_c16(ctx: &Ctx, acc: &Mutex<Acc>) -> Option<Violation> {
    // exhaustive small spaces
    let mut items: Vec<C16Case> = Vec::new();
    items.push(C16Case::Bytes { data: vec![] });
    for a in 0..=255u8 {
        items.push(C16Case::Bytes { data: vec![a] });
        items.push(C16Case::Key { bytes: vec![a], n: a as i128 });
        items.push(C16Case::Key { bytes: vec![], n: (a as i8) as i128 });
    }
    for a in 0..=255u8 {
        for b in 0..=255u8 {
            items.push(C16Case::Bytes { data: vec![a, b] });
        }
    }
    // keys over {0x00,0xFF} up to length 2, lists up to 2
    let alpha: Vec<Vec<u8>> = vec![vec![], vec![0], vec![0xff], vec![0, 0], vec![0, 0xff], vec![0xff, 0], vec![0xff, 0xff]];
    for k1 in &alpha {
        items.push(C16Case::Op { put: true, keys: vec![k1.clone()], hash_seed: 1, size: 7 });
        items.push(C16Case::Op { put: false, keys: vec![k1.clone()], hash_seed: 0, size: 0 });
        for k2 in &alpha {
            items.push(C16Case::Op { put: false, keys: vec![k1.clone(), k2.clone()], hash_seed: 0, size: 0 });
            items.push(C16Case::Snap { version: 1, entries: vec![(k1.clone(), 1, 0), (k2.clone(), 2, u64::MAX)] });
        }
    }
    let edge: [i128; 12] = [i128::MIN, i64::MIN as i128, -256, -1, 0, 1, 127, 128, 255, 256, 65_536, i128::MAX];
    for a in edge {
        for b in edge {
            items.push(C16Case::SnapTyped { version: 1, entries: vec![(a, 1, 0), (b, 2, 5)] });
        }
    }
    items.push(C16Case::Op { put: false, keys: vec![], hash_seed: 0, size: 0 });
    items.push(C16Case::Op { put: true, keys: vec![vec![0x41; 70_000]], hash_seed: 9, size: u64::MAX });
    items.push(C16Case::Op { put: false, keys: vec![vec![0x41; 70_000], vec![], vec![1]], hash_seed: 9, size: 0 });
    // truncation of valid encodings at every offset
    for keys in [vec![b"ab".to_vec()], vec![b"".to_vec(), b"xyz".to_vec(), b"q".to_vec()]] {
        for snap in [false, true] {
            for pos in 0..80u16 {
                items.push(C16Case::Mut { snap, keys: keys.clone(), sel: pos * 4, val: 3 });
            }
        }
    }
    // hash <-> path law on two base hashes, every byte position and value
    for base in [0u8, 0xa5] {
        for pos in 0..32usize {
            for v in 0..=255u8 {
                if (pos * 7 + v as usize) % 4 != 0 && ctx.tier == Tier::Quick {
                    continue;
                }
                let mut h = [base; 32];
                h[pos] = v;
                items.push(C16Case::Path { s: rel_path_of(&h) });
            }
        }
    }
    if let Some(v) = enumerate(ctx, acc, "exhaustive-small", "C16", items, c16_run) {
        return Some(v);
    }
    let cases = ctx.tier.scale(2500, 10);
    campaign(ctx, acc, "random", "C16", cases, 400, |_| c16_strategy(), c16_run)
}

pub fn replay_c16(case: serde_json::Value) -> R<CaseMeta> {
    c16_run(&serde_json::from_value(case).expect("harness: bad C16 case"))
}

// =============================================================================================
// C08 — planted damage (in-process)

pub const C08_PLANT_RULE: &str = "planted damage: a store produced by a generated history is closed cleanly; then generated damage is planted — orphan blobs at canonical paths (also contents that share a prefix directory with live blobs), stray files directly under cas/, under cas/xx/ and under cas/xx/yy/ with non-hex or wrong-length names, leftover files in staging/, referenced blobs (lengths 0 to 300 001 bytes) deleted / truncated by one byte or to a generated fraction / extended by 1 to 300 000 bytes / altered in one bit at a generated position (first, last, anywhere) at the same length, and (separately counted class 'alias') files whose last three path components concatenate to 64 hex digits but that are not at the canonical location (shifted split, upper-case); both verify_blob_integrity values. Oracle: OrphanStats (orphaned, missing, corrupted, invalid, staging, total_blobs) == independent diff of the directory against the model; then one generated action: delete_orphans (counters == set sizes, no errors, afterwards no orphan/invalid/staging file remains and every referenced blob that existed is untouched), quarantine_orphans (every orphan moved to dir/<hex> with its bytes, referenced blobs untouched), or delete_orphan(h) for a reported and for a non-reported hash (true iff reported and unreferenced); afterwards (unless stray files were planted) the contents of the removed orphans and a fresh content are put again and must be stored and read back; 4% of the stores are created with pre_create_cas_dirs=true. non-trivial = >=2 damage classes at once, or an orphan sharing a directory level with a referenced blob; distinct by case hash";

#[derive(Clone, Debug, Serialize, Deserialize, PartialEq)]
pub enum Dmg {
    Orphan { id: u8 },
    StrayL0 { name: String },
    StrayL1 { name: String },
    StrayL2 { name: String },
    Staging { name: String },
    DeleteBlob { k: u8 },
    Truncate { k: u8 },
    Extend { k: u8 },
    Alter { k: u8 },
    /// cut the blob of key k to len * keep / 1000 bytes
    TruncateTo { k: u8, keep: u16 },
    /// append `by` bytes
    ExtendBy { k: u8, by: u32 },
    /// flip one bit of the byte at len * at / 1000 (1000 = last byte)
    AlterAt { k: u8, at: u16, bit: u8 },
    AliasShifted { id: u8 },
    AliasUpper { id: u8 },
    AliasUpperOfLive { k: u8 },
}

#[derive(Clone, Debug, Serialize, Deserialize)]
pub enum PlantAction {
    Delete,
    Quarantine,
    DeleteOne { reported: bool },
}

#[derive(Clone, Debug, Serialize, Deserialize)]
pub struct PlantCase {
    pub puts: Vec<(u8, u8)>,
    pub damage: Vec<Dmg>,
    pub verify: bool,
    pub action: PlantAction,
    /// the store is created with pre_create_cas_dirs = true (65 536 directories; few cases)
    #[serde(default)]
    pub pre: bool,
}

fn plant_run(case: &PlantCase) -> R<CaseMeta> {
    let scratch = Scratch::new("c08p");
    let db = scratch.db();
    let mut m = CaseMeta { evals: 1, ..Default::default() };
    let keys: Vec<String> = vec!["a".into(), "b".into(), "c".into(), "dd".into(), "".into()];
    let mut model: BTreeMap<String, Bytes> = BTreeMap::new();
    {
        let cas = Cas::<String>::open(&db, Config { pre_create_cas_dirs: case.pre, ..cfg_n(100, false) }).map_err(|e| Fail::new("open-err", format!("{e:?}")))?;
        for (k, c) in &case.puts {
            let key = keys[(*k as usize) % keys.len()].clone();
            // 0..4: small pool contents; 5: 20 011 bytes; 6: 300 001 bytes (beyond buffer and mmap/parallel-hash thresholds)
            let content = match *c {
                5 => pool_content(7),
                6 => pool_content(9),
                c => pool_content((c as usize) % 5),
            };
            let mut tx = cas.put(key.clone()).map_err(|e| Fail::new("op-err/put", format!("{e:?}")))?;
            tx.write(&content).map_err(|e| Fail::new("op-err/write", format!("{e:?}")))?;
            tx.finish().map_err(|e| Fail::new("op-err/finish", format!("{e:?}")))?;
            model.insert(key, content);
        }
    }
    let live: Vec<(String, [u8; 32], u64)> = model.iter().map(|(k, v)| (k.clone(), b3(v), v.len() as u64)).collect();
    let referenced: BTreeMap<[u8; 32], u64> = live.iter().map(|(_, h, s)| (*h, *s)).collect();
    let casdir = db.join("cas");
    let mut alias = false;
    let mut classes = std::collections::BTreeSet::new();
    let orphan_content = |id: u8| gen_content(5000 + id as u64, 10 + id as usize * 7);
    let live_of = |k: u8| -> Option<(String, [u8; 32], u64)> { if live.is_empty() { None } else { Some(live[(k as usize) % live.len()].clone()) } };
    for d in &case.damage {
        match d {
            Dmg::Orphan { id } => {
                let c = orphan_content(*id);
                let h = b3(&c);
                if referenced.contains_key(&h) {
                    continue;
                }
                let p = casdir.join(rel_path_of(&h));
                std::fs::create_dir_all(p.parent().unwrap()).expect("harness: mkdir");
                std::fs::write(&p, &c).expect("harness: plant");
                classes.insert("orphan");
            }
            Dmg::StrayL0 { name } => {
                std::fs::write(casdir.join(format!("s0-{name}")), b"x").expect("harness: plant");
                classes.insert("stray");
            }
            Dmg::StrayL1 { name } => {
                std::fs::create_dir_all(casdir.join("ab")).expect("harness: mkdir");
                std::fs::write(casdir.join("ab").join(format!("s1-{name}")), b"xy").expect("harness: plant");
                classes.insert("stray");
            }
            Dmg::StrayL2 { name } => {
                let dir = match live.first() {
                    Some((_, h, _)) => casdir.join(&rel_path_of(h)[..5]),
                    None => casdir.join("ab/cd"),
                };
                std::fs::create_dir_all(&dir).expect("harness: mkdir");
                // not 60 lowercase hex digits
                std::fs::write(dir.join(format!("{name}zz")), b"xyz").expect("harness: plant");
                classes.insert("stray");
            }
            Dmg::Staging { name } => {
                std::fs::write(db.join("staging").join(format!(".tmp{name}")), b"partial").expect("harness: plant");
                classes.insert("staging");
            }
            Dmg::DeleteBlob { k } => {
                if let Some((_, h, _)) = live_of(*k) {
                    let _ = std::fs::remove_file(casdir.join(rel_path_of(&h)));
                    classes.insert("missing");
                }
            }
            Dmg::Truncate { k } | Dmg::Extend { k } | Dmg::Alter { k } => {
                if let Some((_, h, _)) = live_of(*k) {
                    let p = casdir.join(rel_path_of(&h));
                    if let Ok(mut data) = std::fs::read(&p) {
                        match d {
                            Dmg::Truncate { .. } => {
                                if data.is_empty() {
                                    continue;
                                }
                                data.pop();
                            }
                            Dmg::Extend { .. } => data.push(7),
                            _ => {
                                if data.is_empty() {
                                    continue;
                                }
                                let l = data.len();
                                data[l / 2] ^= 0x40;
                            }
                        }
                        std::fs::write(&p, &data).expect("harness: plant");
                        classes.insert("corrupt");
                    }
                }
            }
            Dmg::TruncateTo { k, .. } | Dmg::ExtendBy { k, .. } | Dmg::AlterAt { k, .. } => {
                if let Some((_, h, _)) = live_of(*k) {
                    let p = casdir.join(rel_path_of(&h));
                    if let Ok(mut data) = std::fs::read(&p) {
                        let l = data.len();
                        match d {
                            Dmg::TruncateTo { keep, .. } => {
                                let nl = (l as u64 * (*keep as u64).min(999) / 1000) as usize;
                                if nl >= l {
                                    continue;
                                }
                                data.truncate(nl);
                            }
                            Dmg::ExtendBy { by, .. } => {
                                let by = (*by).max(1) as usize;
                                data.extend(gen_content(77, by));
                            }
                            Dmg::AlterAt { at, bit, .. } => {
                                if l == 0 {
                                    continue;
                                }
                                let pos = ((l as u64 - 1) * (*at as u64).min(1000) / 1000) as usize;
                                data[pos] ^= 1 << (bit % 8);
                                if l >= 131_072 {
                                    classes.insert("corrupt_large_blob");
                                }
                            }
                            _ => unreachable!(),
                        }
                        std::fs::write(&p, &data).expect("harness: plant");
                        classes.insert("corrupt");
                    }
                }
            }
            Dmg::AliasShifted { id } => {
                let c = orphan_content(*id);
                let hx = hexs(&b3(&c));
                let p = casdir.join(&hx[0..3]).join(&hx[3..4]).join(&hx[4..]);
                std::fs::create_dir_all(p.parent().unwrap()).expect("harness: mkdir");
                std::fs::write(&p, &c).expect("harness: plant");
                alias = true;
            }
            Dmg::AliasUpper { id } => {
                let c = orphan_content(*id);
                let hx = hexs(&b3(&c)).to_uppercase();
                if hx == hx.to_lowercase() {
                    continue;
                }
                let p = casdir.join(&hx[0..2]).join(&hx[2..4]).join(&hx[4..]);
                std::fs::create_dir_all(p.parent().unwrap()).expect("harness: mkdir");
                std::fs::write(&p, &c).expect("harness: plant");
                alias = true;
            }
            Dmg::AliasUpperOfLive { k } => {
                if let Some((_, h, _)) = live_of(*k) {
                    let hx = hexs(&h).to_uppercase();
                    if hx == hx.to_lowercase() {
                        continue;
                    }
                    let p = casdir.join(&hx[0..2]).join(&hx[2..4]).join(&hx[4..]);
                    std::fs::create_dir_all(p.parent().unwrap()).expect("harness: mkdir");
                    std::fs::write(&p, b"alias of a live blob").expect("harness: plant");
                    let _ = std::fs::remove_file(casdir.join(rel_path_of(&h)));
                    alias = true;
                    classes.insert("missing");
                }
            }
        }
    }
    let pre = if alias { "alias/" } else { "" };
    let wrap = |f: Fail| Fail::new(format!("{pre}{}", f.sig), f.detail);
    let mut cfg = cfg_n(100, true);
    cfg.verify_blob_integrity = case.verify;
    let (cas, stats) = match Cas::<String>::open_with_recover(&db, cfg) {
        Ok((c, Some(s))) => (c, s),
        Ok((_, None)) => panic!("harness: no OrphanStats although scanning was requested"),
        Err(e) => return Err(wrap(Fail::new(format!("scan/open_with_recover-fails/{}", err_path(&e)), format!("{e:?}")))),
    };
    let exp = crate::e2::expected_scan(&db, &referenced, case.verify);
    crate::e2::compare_scan(&stats, &exp, "planted store").map_err(wrap)?;
    let shares_dir = exp.orphaned.iter().any(|o| referenced.keys().any(|r| r[0] == o[0]));
    match &case.action {
        PlantAction::Delete => {
            let res = stats.delete_orphans().map_err(|e| wrap(Fail::new("cleanup/delete_orphans-err", format!("{e:?}"))))?;
            if !res.errors.is_empty() {
                return Err(wrap(Fail::new("cleanup/errors", format!("delete_orphans reported errors {:?}", res.errors))));
            }
            if res.orphans_deleted != exp.orphaned.len() || res.invalid_files_removed != exp.invalid.len() || res.staging_files_removed != exp.staging.len() {
                return Err(wrap(Fail::new("cleanup/counters-wrong", format!("delete_orphans counters {res:?} vs expected {}/{}/{}", exp.orphaned.len(), exp.invalid.len(), exp.staging.len()))));
            }
            let after = crate::e2::expected_scan(&db, &referenced, true);
            if !after.orphaned.is_empty() || !after.invalid.is_empty() || !after.staging.is_empty() {
                return Err(wrap(Fail::new("cleanup/garbage-left", format!("after delete_orphans {} orphans, {} invalid, {} staging files remain", after.orphaned.len(), after.invalid.len(), after.staging.len()))));
            }
            let before_full = crate::e2::expected_scan(&db, &referenced, true);
            if after.missing != exp.missing || (case.verify && before_full.corrupted != exp.corrupted) {
                return Err(wrap(Fail::new("cleanup/harmed-live-data", "delete_orphans changed referenced blobs")));
            }
            // C07 exactness restored: files == referenced minus missing
            let files: std::collections::BTreeSet<String> = list_files(&casdir).into_keys().collect();
            let want: std::collections::BTreeSet<String> = referenced.keys().filter(|h| !exp.missing.contains(*h)).map(rel_path_of).collect();
            if files != want {
                return Err(wrap(Fail::new("cleanup/not-exact-afterwards", format!("after clean-up cas/ holds {} files, expected {}", files.len(), want.len()))));
            }
            m.class("action_delete");
        }
        PlantAction::Quarantine => {
            let q = scratch.path.join("quarantine");
            let res = stats.quarantine_orphans(&q).map_err(|e| wrap(Fail::new("cleanup/quarantine-err", format!("{e:?}"))))?;
            if !res.errors.is_empty() || res.orphans_quarantined != exp.orphaned.len() {
                return Err(wrap(Fail::new("cleanup/quarantine-counters", format!("quarantine result {res:?}, expected {} orphans moved", exp.orphaned.len()))));
            }
            for h in &exp.orphaned {
                let dst = q.join(hexs(h));
                match std::fs::read(&dst) {
                    Ok(d) if b3(&d) == *h => {}
                    _ => return Err(wrap(Fail::new("cleanup/quarantine-file-wrong", format!("orphan {} is not in the quarantine directory with its bytes", &hexs(h)[..12])))),
                }
                if casdir.join(rel_path_of(h)).exists() {
                    return Err(wrap(Fail::new("cleanup/quarantine-source-left", "quarantined orphan still exists under cas/")));
                }
            }
            let after = crate::e2::expected_scan(&db, &referenced, true);
            if after.missing != exp.missing || !after.orphaned.is_empty() {
                return Err(wrap(Fail::new("cleanup/harmed-live-data", "quarantine changed referenced blobs or left orphans")));
            }
            m.class("action_quarantine");
        }
        PlantAction::DeleteOne { reported } => {
            let target: Option<[u8; 32]> = if *reported { exp.orphaned.iter().next().copied() } else { referenced.keys().next().copied().or(Some([9u8; 32])) };
            if let Some(h) = target {
                let r = stats.delete_orphan(&BlobHash::from_bytes(h)).map_err(|e| wrap(Fail::new("cleanup/delete_orphan-err", format!("{e:?}"))))?;
                let expect = *reported;
                if r != expect {
                    return Err(wrap(Fail::new("cleanup/delete_orphan-return", format!("delete_orphan returned {r} for a {} hash", if *reported { "reported orphan" } else { "non-reported" }))));
                }
                let exists = casdir.join(rel_path_of(&h)).exists();
                if *reported && exists {
                    return Err(wrap(Fail::new("cleanup/delete_orphan-no-effect", "delete_orphan returned true but the file is still there")));
                }
                if !*reported && referenced.contains_key(&h) && !exp.missing.contains(&h) && !exists {
                    return Err(wrap(Fail::new("cleanup/harmed-live-data", "delete_orphan removed a referenced blob")));
                }
            }
            m.class("action_delete_one");
        }
    }
    // referenced, intact blobs still readable
    for (k, h, _) in &live {
        if exp.missing.contains(h) || exp.corrupted.contains(h) {
            continue;
        }
        if !case.verify {
            // without verification corrupted blobs are not reported; only check undamaged ones
            let p = casdir.join(rel_path_of(h));
            if std::fs::read(&p).map(|d| b3(&d) != *h).unwrap_or(true) {
                continue;
            }
        }
        match cas.get(k) {
            Ok(Some(b)) if b3(&b) == *h => {}
            other => return Err(wrap(Fail::new("cleanup/harmed-live-data", format!("get({k:?}) after clean-up: {:?}", other.map(|o| o.map(|b| b.len())))))),
        }
    }
    // clean-up is harmless: the store keeps accepting puts, in particular of the very contents whose orphaned
    // files were just removed (the natural retry after a crash). Skipped when stray files / alias paths were
    // planted: a stray *file* named like a shard directory legitimately blocks that shard.
    let blocked = alias || case.damage.iter().any(|d| matches!(d, Dmg::StrayL0 { .. } | Dmg::StrayL1 { .. } | Dmg::StrayL2 { .. }));
    if !blocked {
        let mut again: Vec<Vec<u8>> = case.damage.iter().filter_map(|d| if let Dmg::Orphan { id } = d { Some(orphan_content(*id)) } else { None }).collect();
        again.push(gen_content(31_337, 77));
        for (i, content) in again.iter().enumerate() {
            let key = format!("after-cleanup-{i}");
            let r = (|| -> Result<(), LibError> {
                let mut tx = cas.put(key.clone())?;
                tx.write(content).map_err(|e| LibError::Io { operation: cassadilia::LibIoOperation::WriteStagingFile, path: None, source: std::io::Error::other(format!("{e:?}")) })?;
                tx.finish()
            })();
            if let Err(e) = r {
                return Err(wrap(Fail::new(format!("cleanup/put-fails-after-cleanup/{}", err_path(&e)), format!("after the clean-up a put of {} fails: {e:?}", if i + 1 == again.len() { "fresh content".to_string() } else { "the content of a removed orphan".to_string() }))));
            }
            match cas.get(&key) {
                Ok(Some(b)) if b[..] == content[..] => {}
                other => return Err(wrap(Fail::new("cleanup/put-after-cleanup-unreadable", format!("get after a put that followed the clean-up: {:?}", other.map(|o| o.map(|b| b.len())))))),
            }
        }
        if again.len() > 1 {
            m.class("orphan_content_put_again_after_cleanup");
        }
    }
    if case.pre {
        m.class("planted_on_pre_created_tree");
    }
    for c in &classes {
        m.class(&format!("dmg_{c}"));
    }
    if alias {
        m.class("alias_class");
    }
    if classes.len() >= 2 || shares_dir {
        m.nontrivial.push(hash_json(case));
    }
    Ok(m)
}

pub fn run_c08_planted(ctx: &Ctx, acc: &Mutex<Acc>) -> Option<Violation> {
    let cases = ctx.tier.scale(100, 20);
    let name = || "[a-z0-9]{1,6}".prop_map(|s: String| s);
    let strat = move |with_alias: bool| {
        let mut alts: Vec<(u32, BoxedStrategy<Dmg>)> = vec![
            (6, (0u8..200).prop_map(|id| Dmg::Orphan { id }).boxed()),
            (2, name().prop_map(|name| Dmg::StrayL0 { name }).boxed()),
            (2, name().prop_map(|name| Dmg::StrayL1 { name }).boxed()),
            (2, name().prop_map(|name| Dmg::StrayL2 { name }).boxed()),
            (3, name().prop_map(|name| Dmg::Staging { name }).boxed()),
            (3, (0u8..5).prop_map(|k| Dmg::DeleteBlob { k }).boxed()),
            (2, (0u8..5).prop_map(|k| Dmg::Truncate { k }).boxed()),
            (2, (0u8..5).prop_map(|k| Dmg::Extend { k }).boxed()),
            (2, (0u8..5).prop_map(|k| Dmg::Alter { k }).boxed()),
            (2, (0u8..5, prop_oneof![Just(0u16), Just(999u16), 0u16..1000]).prop_map(|(k, keep)| Dmg::TruncateTo { k, keep }).boxed()),
            (2, (0u8..5, prop_oneof![Just(1u32), 1u32..10_000, 100_000u32..300_000]).prop_map(|(k, by)| Dmg::ExtendBy { k, by }).boxed()),
            (4, (0u8..5, prop_oneof![Just(0u16), Just(1000u16), 0u16..=1000], 0u8..8).prop_map(|(k, at, bit)| Dmg::AlterAt { k, at, bit }).boxed()),
        ];
        if with_alias {
            alts.push((6, (0u8..200).prop_map(|id| Dmg::AliasShifted { id }).boxed()));
            alts.push((6, (0u8..200).prop_map(|id| Dmg::AliasUpper { id }).boxed()));
            alts.push((3, (0u8..5).prop_map(|k| Dmg::AliasUpperOfLive { k }).boxed()));
        }
        (
            vec((0u8..5, prop_oneof![5 => 0u8..5, 1 => Just(5u8), 1 => Just(6u8)]), 0..7),
            vec(proptest::strategy::Union::new_weighted(alts), 0..6),
            any::<bool>(),
            prop_oneof![4 => Just(PlantAction::Delete), 2 => Just(PlantAction::Quarantine), 2 => any::<bool>().prop_map(|r| PlantAction::DeleteOne { reported: r })],
            prop::bool::weighted(0.04),
        )
            .prop_map(|(puts, damage, verify, action, pre)| PlantCase { puts, damage, verify, action, pre })
    };
    if let Some(v) = campaign(ctx, acc, "planted-damage", "C08P", cases, 300, |_| strat(false), plant_run) {
        return Some(v);
    }
    campaign(ctx, acc, "planted-alias-paths", "C08P", cases / 4, 300, |_| strat(true), plant_run)
}

pub fn replay_c08_planted(case: serde_json::Value) -> R<CaseMeta> {
    plant_run(&serde_json::from_value(case).expect("harness: bad C08P case"))
}

// =============================================================================================
// seed corpus for the libFuzzer targets (thorough tier of C16)

pub fn gen_corpus(dir: &Path) {
    let mk = |sub: &str| {
        let d = dir.join(sub);
        std::fs::create_dir_all(&d).expect("harness: mkdir corpus");
        d
    };
    let keysets: Vec<Vec<Vec<u8>>> = vec![
        vec![],
        vec![vec![]],
        vec![b"a".to_vec()],
        vec![b"ab".to_vec(), vec![], vec![0xff, 0xfe]],
        vec![vec![7; 300]],
        vec![b"k1".to_vec(), b"k2".to_vec(), b"k3".to_vec(), b"k4".to_vec()],
    ];
    let ops = mk("wal_op");
    let segs = mk("segment");
    let mut n = 0;
    let mut seg_all = Vec::new();
    for (i, ks) in keysets.iter().enumerate() {
        for put in [true, false] {
            let op = if put {
                ondisk::Op::Put { key: ks.first().cloned().unwrap_or_default(), hash: hash_of(i as u8), size: (i as u64) << 33 }
            } else {
                ondisk::Op::Remove { keys: ks.clone() }
            };
            let enc = ondisk::encode_op(&op);
            std::fs::write(ops.join(format!("op{n}")), &enc).unwrap();
            let rec = ondisk::encode_record(n as u64 + 1, &enc);
            std::fs::write(segs.join(format!("seg{n}")), &rec).unwrap();
            seg_all.extend_from_slice(&rec);
            n += 1;
        }
    }
    let mut sealed = seg_all.clone();
    sealed.extend_from_slice(&[0u8; 44]);
    std::fs::write(segs.join("multi"), &seg_all).unwrap();
    std::fs::write(segs.join("sealed"), &sealed).unwrap();
    let snaps = mk("index_state");
    for (i, ks) in keysets.iter().enumerate() {
        let mut e: Vec<(Vec<u8>, [u8; 32], u64)> = ks.iter().enumerate().map(|(j, k)| (k.clone(), hash_of(j as u8), j as u64 * 77)).collect();
        e.sort();
        e.dedup_by(|a, b| a.0 == b.0);
        std::fs::write(snaps.join(format!("snap{i}")), ondisk::encode_snapshot(i as u64, &e)).unwrap();
    }
    let paths = mk("blob_path");
    for i in 0..6u8 {
        let h = hash_of(i.wrapping_mul(37));
        std::fs::write(paths.join(format!("p{i}")), rel_path_of(&h)).unwrap();
        std::fs::write(paths.join(format!("h{i}")), hexs(&h)).unwrap();
        std::fs::write(paths.join(format!("r{i}")), h).unwrap();
        std::fs::write(paths.join(format!("x{i}")), format!("/var/db/cas/{}", rel_path_of(&h))).unwrap();
    }
}

// =============================================================================================
// C18 — exhaustive short contents x all chunkings, and the hash <-> path law

pub const C18_EXH_RULE: &str = "exhaustive part: ALL byte strings of length <= 4 over {0x00,0x61,0xFF} (121 contents), each delivered in EVERY composition into non-empty chunks (2^(len-1)) and additionally with an empty chunk inserted at every gap; after finish: get_item == {one-shot blake3, len}, the file sits at the harness-derived path cas/hh/hh/<60 hex> with exactly the bytes, and all chunkings of one content give the same item. Path law: for two base hashes and EVERY byte position x EVERY byte value (16 384 hashes) plus 2 000 random hashes: relative_path has exactly three components of 2/2/60 lowercase hex digits, from_relative_path(relative_path(h)) == h with and without a directory prefix, from_hex(to_hex(h)) == h, and distinct hashes map to distinct paths (set size). Long contents: lengths 0..1.5 MB (also +-1 around 8 Ki, 16 Ki, 64 Ki, 128 Ki, 256 Ki, 512 Ki, 1 Mi) delivered in chunks cycling through a generated pattern of 0-3 lengths (empty chunks, 1..9000, around 8 Ki/64 Ki/128 Ki, up to 300 000) plus a separately generated final chunk (absent, shorter than 8 KiB, around 8 KiB, or long); same oracle plus get() == content. non-trivial = content delivered in >=2 chunks or with an empty chunk / hash pair differing in one byte; distinct by (content, chunking) or hash";

#[derive(Clone, Debug, Serialize, Deserialize)]
pub enum C18Case {
    /// content bytes, chunk lengths (0 = empty chunk)
    Chunks { content: Vec<u8>, chunks: Vec<u8> },
    Path { hash: Vec<u8> },
    /// content gen_content(id, len): the first len - tail bytes are delivered in chunks whose lengths cycle
    /// through `pattern` (0 = empty chunk), the last `tail` bytes in one final chunk
    Big { len: u32, id: u8, pattern: Vec<u32>, tail: u32 },
}

fn c18_run(case: &C18Case) -> R<CaseMeta> {
    let mut m = CaseMeta { evals: 1, ..Default::default() };
    match case {
        C18Case::Chunks { content, chunks } => {
            let scratch = Scratch::new("c18");
            let cas = Cas::<u64>::open(scratch.db(), cfg_n(100, false)).map_err(|e| Fail::new("open-err", format!("{e:?}")))?;
            let mut tx = cas.put(1).map_err(|e| Fail::new("op-err/put", format!("{e:?}")))?;
            let mut off = 0usize;
            for c in chunks {
                let l = *c as usize;
                tx.write(&content[off..off + l]).map_err(|e| Fail::new("op-err/write", format!("{e:?}")))?;
                off += l;
            }
            if off != content.len() {
                panic!("harness: chunking does not cover the content");
            }
            tx.finish().map_err(|e| Fail::new("op-err/finish", format!("{e:?}")))?;
            let h = b3(content);
            match cas.read_index_state().get_item(&1) {
                Some(i) if *i.blob_hash.as_bytes() == h && i.blob_size == content.len() as u64 => {}
                other => fail!("ident/item", "content {content:?} in chunks {chunks:?}: committed item {other:?}, expected hash {} size {}", &hexs(&h)[..12], content.len()),
            }
            match std::fs::read(scratch.db().join("cas").join(rel_path_of(&h))) {
                Ok(d) if d == *content => {}
                Ok(d) => fail!("ident/file-bytes", "content {content:?} in chunks {chunks:?}: file holds {d:?}"),
                Err(e) => fail!("ident/file-missing", "content {content:?} in chunks {chunks:?}: no file at the derived path: {e}"),
            }
            if list_files(&scratch.db().join("cas")).len() != 1 {
                fail!("ident/extra-files", "more than one file under cas/ after a single put");
            }
            if chunks.len() >= 2 {
                m.nontrivial.push(hash_json(case));
            }
        }
        C18Case::Big { len, id, pattern, tail } => {
            let content = gen_content(*id as u64, *len as usize);
            let tail = (*tail as usize).min(content.len());
            let head = content.len() - tail;
            let scratch = Scratch::new("c18b");
            let cas = Cas::<u64>::open(scratch.db(), cfg_n(100, false)).map_err(|e| Fail::new("open-err", format!("{e:?}")))?;
            let mut tx = cas.put(1).map_err(|e| Fail::new("op-err/put", format!("{e:?}")))?;
            let mut off = 0usize;
            let mut nchunks = 0usize;
            let mut i = 0usize;
            let mut calls = 0usize;
            while off < head {
                let want = if pattern.is_empty() { head } else { pattern[i % pattern.len()] as usize };
                i += 1;
                // at most 20 000 write calls per case: tiny chunks give way to the rest of the head
                let l = if calls > 20_000 { head - off } else { want.min(head - off) };
                tx.write(&content[off..off + l]).map_err(|e| Fail::new("op-err/write", format!("{e:?}")))?;
                calls += 1;
                off += l;
                if l > 0 {
                    nchunks += 1;
                }
                if pattern.iter().all(|p| *p == 0) {
                    break;
                }
            }
            if off < head {
                tx.write(&content[off..head]).map_err(|e| Fail::new("op-err/write", format!("{e:?}")))?;
                nchunks += 1;
            }
            if tail > 0 {
                tx.write(&content[head..]).map_err(|e| Fail::new("op-err/write", format!("{e:?}")))?;
                nchunks += 1;
            }
            tx.finish().map_err(|e| Fail::new("op-err/finish", format!("{e:?}")))?;
            let h = b3(&content);
            match cas.read_index_state().get_item(&1) {
                Some(i) if *i.blob_hash.as_bytes() == h && i.blob_size == content.len() as u64 => {}
                other => fail!("ident/item", "content of {len} bytes in chunks cycling {pattern:?} + final chunk of {tail}: committed item {other:?}, expected hash {} size {}", &hexs(&h)[..12], content.len()),
            }
            match std::fs::read(scratch.db().join("cas").join(rel_path_of(&h))) {
                Ok(d) if d == content => {}
                Ok(d) => fail!("ident/file-bytes", "content of {len} bytes in chunks cycling {pattern:?} + {tail}: file holds {} other bytes", d.len()),
                Err(e) => fail!("ident/file-missing", "content of {len} bytes in chunks cycling {pattern:?} + {tail}: no file at the derived path: {e}"),
            }
            if list_files(&scratch.db().join("cas")).len() != 1 {
                fail!("ident/extra-files", "more than one file under cas/ after a single put");
            }
            match cas.get(&1) {
                Ok(Some(b)) if b[..] == content[..] => {}
                other => fail!("ident/read-back", "get after the put returns {:?}", other.map(|o| o.map(|b| b.len()))),
            }
            if nchunks >= 2 {
                m.nontrivial.push(hash_json(case));
            }
            m.class(if *len >= 131_072 { "big_ge_128k" } else if *len > 8192 { "big_gt_8k" } else { "big_small" });
            if *len >= 131_072 && tail > 0 && tail < 8192 {
                m.class("big_ge_128k_short_last_chunk");
            }
        }
        C18Case::Path { hash } => {
            let h: [u8; 32] = hash[..].try_into().expect("harness: hash length");
            let bh = BlobHash::from_bytes(h);
            let p = bh.relative_path();
            let comps: Vec<String> = p.components().map(|c| c.as_os_str().to_string_lossy().to_string()).collect();
            let ok = comps.len() == 3 && comps[0].len() == 2 && comps[1].len() == 2 && comps[2].len() == 60 && comps.iter().all(|c| c.bytes().all(|b| b.is_ascii_digit() || (b'a'..=b'f').contains(&b)));
            if !ok || comps.join("/") != rel_path_of(&h) {
                fail!("path/shape", "relative_path of {} is {p:?}", hexs(&h));
            }
            for pre in ["", "/var/lib/db/cas", "x"] {
                let full = if pre.is_empty() { p.clone() } else { Path::new(pre).join(&p) };
                match BlobHash::from_relative_path(&full) {
                    Ok(back) if back == bh => {}
                    other => fail!("path/parse-back", "from_relative_path({full:?}) = {other:?}"),
                }
            }
            match BlobHash::from_hex(&bh.to_hex()) {
                Ok(back) if back == bh => {}
                other => fail!("path/hex-roundtrip", "from_hex(to_hex(h)) = {other:?}"),
            }
            m.nontrivial.push(hash_json(case));
        }
    }
    Ok(m)
}

pub fn run_c18_exhaustive(ctx: &Ctx, acc: &Mutex<Acc>) -> Option<Violation> {
    let mut items: Vec<C18Case> = Vec::new();
    let alpha = [0x00u8, 0x61, 0xFF];
    let mut contents: Vec<Vec<u8>> = vec![vec![]];
    let mut frontier: Vec<Vec<u8>> = vec![vec![]];
    for _ in 0..4 {
        let mut next = Vec::new();
        for c in &frontier {
            for a in alpha {
                let mut d = c.clone();
                d.push(a);
                next.push(d);
            }
        }
        contents.extend(next.iter().cloned());
        frontier = next;
    }
    for content in &contents {
        let n = content.len();
        // compositions: bitmask over the n-1 gaps
        let comps = if n == 0 { 1 } else { 1usize << (n - 1) };
        for mask in 0..comps {
            let mut chunks: Vec<u8> = Vec::new();
            let mut cur = 0u8;
            for i in 0..n {
                cur += 1;
                if i + 1 == n || mask & (1 << i) != 0 {
                    chunks.push(cur);
                    cur = 0;
                }
            }
            items.push(C18Case::Chunks { content: content.clone(), chunks: chunks.clone() });
            // an empty chunk at every gap (including both ends)
            for g in 0..=chunks.len() {
                let mut c2 = chunks.clone();
                c2.insert(g, 0);
                items.push(C18Case::Chunks { content: content.clone(), chunks: c2 });
            }
        }
    }
    if let Some(v) = enumerate(ctx, acc, "chunkings-exhaustive", "C18X", items, c18_run) {
        return Some(v);
    }
    let mut hashes: Vec<[u8; 32]> = Vec::new();
    for base in [0u8, 0xa5] {
        for pos in 0..32 {
            for v in 0..=255u8 {
                let mut h = [base; 32];
                h[pos] = v;
                hashes.push(h);
            }
        }
    }
    for i in 0..2000u64 {
        hashes.push(b3(&(i ^ ctx.seed.wrapping_mul(0x9E37_79B9)).to_le_bytes()));
    }
    hashes.sort();
    hashes.dedup();
    // injectivity over the whole sample
    let paths: std::collections::BTreeSet<String> = hashes.iter().map(|h| BlobHash::from_bytes(*h).relative_path().to_string_lossy().to_string()).collect();
    if paths.len() != hashes.len() {
        return Some(Violation { sig: "path/not-injective".into(), detail: format!("{} distinct hashes map to {} distinct paths", hashes.len(), paths.len()), case: serde_json::json!({"Path": {"hash": []}}), engine: "C18X".into() });
    }
    let items: Vec<C18Case> = hashes.into_iter().map(|h| C18Case::Path { hash: h.to_vec() }).collect();
    let v = enumerate(ctx, acc, "path-law", "C18X", items, c18_run);
    acc.lock().unwrap().exhaustive = false;
    if v.is_some() {
        return v;
    }
    // long contents: lengths around and far beyond every plausible internal threshold, cyclic chunk patterns
    let cases = ctx.tier.scale(160, 10);
    let strat = || {
        let around = |b: u32| (0u32..3).prop_map(move |d| b + d - 1);
        let len = prop_oneof![
            2 => 0u32..20_000,
            2 => prop_oneof![around(8192), around(16_384), around(65_536), around(131_072), around(262_144), around(524_288), around(1_048_576)],
            3 => 20_000u32..400_000,
            1 => 400_000u32..1_500_000,
        ];
        let chunk = prop_oneof![2 => 0u32..20, 3 => 1u32..9000, 1 => around(8192), 1 => around(65_536), 1 => around(131_072), 1 => 10_000u32..300_000];
        let tail = prop_oneof![2 => Just(0u32), 3 => 1u32..8192, 1 => around(8192), 2 => 8192u32..200_000];
        (len, any::<u8>(), vec(chunk, 0..4), tail).prop_map(|(len, id, pattern, tail)| C18Case::Big { len, id, pattern, tail })
    };
    campaign(ctx, acc, "long-contents", "C18X", cases, 100, |_| strat(), c18_run)
}

pub fn replay_c18x(case: serde_json::Value) -> R<CaseMeta> {
    c18_run(&serde_json::from_value(case).expect("harness: bad C18X case"))
}

// =============================================================================================
// C19 — interrupted first-time creation with a pre-created directory tree

pub const C19_INTERRUPTED_RULE: &str = "interrupted creation: a worker process creates a store with pre_create_cas_dirs=true under the LD_PRELOAD shim and is killed immediately before its k-th mutating filesystem call, for k at generated positions early in, in the middle of and at the end of the 65 536-directory creation and around the settings write; the directory is then opened normally (with either value of the flag) and a history of puts with many distinct contents must succeed and read back, exactly as on an uninterrupted store (the remembered choice must not change behaviour observably; first-time initialisation must be crash-safe). non-trivial = kill inside the directory creation or between it and the settings write; distinct by (k, reopen flag)";

#[derive(Clone, Debug, Serialize, Deserialize)]
pub struct C19ICase {
    /// kill positions as fractions of the traced creation (0..=65535)
    pub fracs: Vec<u16>,
    pub reopen_pre: bool,
    pub contents: u8,
}

fn c19i_run(case: &C19ICase) -> R<CaseMeta> {
    use crate::proc::{run_worker, Script, ShimMode};
    crate::proc::ensure_shim();
    let scratch = Scratch::new("c19i");
    let work = scratch.path.join("work");
    std::fs::create_dir_all(&work).expect("harness: mkdir");
    let mut m = CaseMeta::default();
    let script = Script { cfg: crate::seq::Cfg { kt: "U64".into(), n: 100, asyn: false, scan: true, verify: false }, asyn: false, cleanup: false, ops: vec![], dump: false, pre_create: true };
    // dry traced run: how many mutating calls does a complete creation make?
    let db0 = scratch.path.join("db0");
    std::fs::create_dir_all(&db0).expect("harness: mkdir");
    let dry = run_worker(&db0, &work, "dry", &script, ShimMode::Trace, std::time::Duration::from_secs(120));
    if dry.code != Some(0) {
        eprintln!("HARNESS-ERROR: creation with pre-created tree failed in an error-free run");
        crate::common::remove_own_scratch();
        std::process::exit(2);
    }
    let total = dry.trace.iter().map(|e| e.mseq).max().unwrap_or(0);
    let _ = std::fs::remove_dir_all(&db0);
    let mut ks: Vec<u64> = case.fracs.iter().map(|f| 1 + ((*f as u64) * total) / 65536).collect();
    ks.extend([total.saturating_sub(1), total.saturating_sub(2), total.saturating_sub(3), total.saturating_sub(5), total]);
    ks.sort();
    ks.dedup();
    for k in ks {
        if k == 0 {
            continue;
        }
        let db = scratch.path.join("db");
        let _ = std::fs::remove_dir_all(&db);
        std::fs::create_dir_all(&db).expect("harness: mkdir");
        let run = run_worker(&db, &work, "crash", &script, ShimMode::CrashAt(k), std::time::Duration::from_secs(120));
        if run.code != Some(137) && run.code != Some(0) {
            fail!("settings/creation-crashed-oddly", "creation run ended with {:?}", run.code);
        }
        m.evals += 1;
        let mut cfg = cfg_n(100, true);
        cfg.pre_create_cas_dirs = case.reopen_pre;
        let ctx = format!("creation killed before mutating call {k} of {total}, reopened with pre_create_cas_dirs={}", case.reopen_pre);
        let cas = match Cas::<u64>::open(&db, cfg.clone()) {
            Ok(c) => c,
            Err(e) => fail!(format!("settings/open-after-interrupted-creation-fails/{}", err_path(&e)), "{ctx}: {e:?}"),
        };
        for i in 0..case.contents.max(8) as u64 {
            let content = gen_content(7000 + i, 5 + (i as usize % 40));
            let r: Result<(), LibError> = (|| {
                let mut tx = cas.put(i)?;
                tx.write(&content).map_err(|e| LibError::Io { operation: cassadilia::LibIoOperation::WriteStagingFile, path: None, source: std::io::Error::other(format!("{e:?}")) })?;
                tx.finish()
            })();
            if let Err(e) = r {
                fail!(format!("settings/put-fails-after-interrupted-creation/{}", err_path(&e)), "{ctx}: put #{i} fails: {e:?}");
            }
            match cas.get(&i) {
                Ok(Some(b)) if b[..] == content[..] => {}
                other => fail!("settings/read-after-interrupted-creation", "{ctx}: get({i}) = {:?}", other.map(|o| o.map(|b| b.len()))),
            }
        }
        drop(cas);
        // and once more after a clean reopen
        match Cas::<u64>::open(&db, cfg) {
            Ok(c) => {
                if c.read_index_state().len() != case.contents.max(8) as usize {
                    fail!("settings/data-changed", "{ctx}: keys lost across a reopen");
                }
            }
            Err(e) => fail!(format!("settings/open-after-interrupted-creation-fails/{}", err_path(&e)), "{ctx}: second open: {e:?}"),
        }
        if k + 6 < total || k >= total.saturating_sub(5) {
            m.nontrivial.push(mix(k, total, case.reopen_pre as u64, 1919));
        }
    }
    m.class("interrupted_creation");
    Ok(m)
}

pub fn run_c19_interrupted(ctx: &Ctx, acc: &Mutex<Acc>) -> Option<Violation> {
    let n = ctx.tier.scale(3, 4) as usize;
    let items: Vec<C19ICase> = (0..n)
        .map(|i| {
            let s = ctx.seed.wrapping_mul(31).wrapping_add(i as u64 * 7919);
            C19ICase { fracs: vec![(s % 400) as u16 + 20, ((s / 3) % 30000) as u16 + 2000, ((s / 7) % 20000) as u16 + 40000], reopen_pre: i % 2 == 0, contents: 40 }
        })
        .collect();
    enumerate(ctx, acc, "interrupted-creation", "C19I", items, c19i_run)
}

pub fn replay_c19i(case: serde_json::Value) -> R<CaseMeta> {
    c19i_run(&serde_json::from_value(case).expect("harness: bad C19I case"))
}
