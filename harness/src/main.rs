//! vcheck — property-based checks for broxus/cassadilia (see /verif/DESIGN.md).

#![allow(dead_code)]
mod alloc;
mod common;
mod e2;
mod fault;
mod fsmodel;
mod proc;
mod linz;
mod props_c11;
mod props_e2;
mod props_e3;
mod sched;
mod stress;
mod props_misc;
mod engine;
mod gen;
mod ondisk;
mod props_seq;
mod seq;

use std::sync::Mutex;

use engine::*;

#[global_allocator]
static GLOBAL: alloc::Counting = alloc::Counting;

pub struct Part {
    pub rule: String,
    pub run: Box<dyn Fn(&Ctx, &Mutex<Acc>) -> Option<Violation>>,
}

fn seq_part(prop: &'static str, tier: Tier, seed: u64) -> Part {
    let p = props_seq::part_for(prop, tier, seed);
    Part { rule: p.rule.to_string(), run: Box::new(move |ctx, acc| props_seq::run_seq_part(ctx, acc, &p)) }
}

fn e2_part(prop: &'static str, tier: Tier) -> Part {
    let p = props_e2::part_for(prop, tier);
    Part { rule: p.rule.to_string(), run: Box::new(move |ctx, acc| props_e2::run_e2_part(ctx, acc, &p)) }
}

fn e3_part(prop: &'static str) -> Part {
    let p = props_e3::part_for(prop);
    Part { rule: p.rule.to_string(), run: Box::new(move |ctx, acc| props_e3::run_e3_part(ctx, acc, &p)) }
}

fn level_of(id: &str) -> &'static str {
    match id {
        "C03" | "C09" | "C10" | "C14" => "fault_enumeration",
        _ => "exploration",
    }
}

fn parts(id: &'static str, tier: Tier, seed: u64) -> Vec<Part> {
    match id {
        "C01" => vec![seq_part(id, tier, seed)],
        "C02" => vec![
            seq_part(id, tier, seed),
            Part { rule: props_misc::C02_LARGE_RULE.to_string(), run: Box::new(|ctx, acc| props_misc::run_c02_large(ctx, acc)) },
        ],
        "C18" => vec![
            seq_part(id, tier, seed),
            Part { rule: props_misc::C18_EXH_RULE.to_string(), run: Box::new(|ctx, acc| props_misc::run_c18_exhaustive(ctx, acc)) },
            Part { rule: props_misc::VLT_RULE_C18.to_string(), run: Box::new(|ctx, acc| props_misc::run_vlt(ctx, acc, true)) },
        ],
        "C13" => vec![
            seq_part(id, tier, seed),
            e3_part(id),
            Part { rule: props_misc::VLT_RULE_C13.to_string(), run: Box::new(|ctx, acc| props_misc::run_vlt(ctx, acc, false)) },
        ],
        "C07" => vec![
            seq_part(id, tier, seed),
            e3_part(id),
            Part { rule: props_e3::STRESS_SHARED_RULE.to_string(), run: Box::new(|ctx, acc| props_e3::run_stress_shared(ctx, acc, false, true)) },
        ],
        "C12" => vec![seq_part(id, tier, seed), e2_part(id, tier), e3_part(id)],
        "C20" => vec![
            seq_part(id, tier, seed),
            e2_part(id, tier),
            Part { rule: props_e2::C20_FAULT_RULE.to_string(), run: Box::new(|ctx, acc| props_e2::run_c20_fault(ctx, acc)) },
        ],
        "C06" => vec![
            seq_part(id, tier, seed),
            e2_part(id, tier),
            e3_part(id),
            Part { rule: props_e2::C06_XDEV_RULE.to_string(), run: Box::new(|ctx, acc| props_e2::run_c06_xdev(ctx, acc)) },
            Part { rule: props_e2::C06_PL_RULE.to_string(), run: Box::new(|ctx, acc| props_e2::run_c06_powerloss(ctx, acc)) },
        ],
        "C09" => vec![e2_part(id, tier)],
        "C03" => vec![
            e2_part(id, tier),
            Part { rule: props_e2::C03_BULK_RULE.to_string(), run: Box::new(|ctx, acc| props_e2::run_c03_bulk(ctx, acc)) },
        ],
        "C08" => vec![
            e2_part(id, tier),
            Part { rule: props_misc::C08_PLANT_RULE.to_string(), run: Box::new(|ctx, acc| props_misc::run_c08_planted(ctx, acc)) },
            e3_part(id),
        ],
        "C15" => vec![
            e3_part(id),
            Part { rule: props_e3::STRESS_MIXED_RULE.to_string(), run: Box::new(|ctx, acc| props_e3::run_stress_mixed(ctx, acc)) },
        ],
        "C04" => vec![
            e3_part(id),
            Part { rule: props_e3::STRESS_SHARED_RULE.to_string(), run: Box::new(|ctx, acc| props_e3::run_stress_shared(ctx, acc, true, false)) },
        ],
        "C05" => vec![
            e3_part(id),
            Part { rule: props_e3::STRESS_REGISTER_RULE.to_string(), run: Box::new(|ctx, acc| props_e3::run_stress_register(ctx, acc)) },
        ],
        "C17" => vec![Part { rule: props_misc::C17_RULE.to_string(), run: Box::new(|ctx, acc| props_misc::run_c17(ctx, acc)) }],
        "C19" => vec![
            Part { rule: props_misc::C19_RULE.to_string(), run: Box::new(|ctx, acc| props_misc::run_c19(ctx, acc)) },
            Part { rule: props_misc::C19_INTERRUPTED_RULE.to_string(), run: Box::new(|ctx, acc| props_misc::run_c19_interrupted(ctx, acc)) },
            Part { rule: props_misc::C19_PRE_RULE.to_string(), run: Box::new(|ctx, acc| props_misc::run_c19_pre_histories(ctx, acc)) },
        ],
        "C10" => vec![Part { rule: props_misc::C10_RULE.to_string(), run: Box::new(|ctx, acc| props_misc::run_c10(ctx, acc)) }],
        "C16" => vec![Part { rule: props_misc::C16_RULE.to_string(), run: Box::new(|ctx, acc| props_misc::run_c16(ctx, acc)) }],
        "C11" => vec![Part { rule: props_c11::C11_RULE.to_string(), run: Box::new(|ctx, acc| props_c11::run_c11(ctx, acc)) }],
        "C14" => vec![Part { rule: props_e2::C14_RULE.to_string(), run: Box::new(|ctx, acc| props_e2::run_c14(ctx, acc)) }],
        _ => vec![],
    }
}

fn assumptions(_id: &str) -> Vec<String> {
    vec![
        "scratch stores live on tmpfs (/dev/shm); filesystem semantics of tmpfs are taken as representative".into(),
        "the harness's own model, independent on-disk reader and blake3 one-shot hashing are trusted".into(),
        "no counterexample among the generated cases is not a proof of absence".into(),
    ]
}

const IDS: [&str; 20] = [
    "C01", "C02", "C03", "C04", "C05", "C06", "C07", "C08", "C09", "C10", "C11", "C12", "C13", "C14", "C15", "C16", "C17",
    "C18", "C19", "C20",
];

fn run_prop(id: &'static str, tier: Tier, seed: u64) -> i32 {
    let ctx = Ctx::new(id, tier, seed, level_of(id));
    let acc = Mutex::new(Acc::default());
    let ps = parts(id, tier, seed);
    if ps.is_empty() {
        eprintln!("HARNESS-ERROR: property {id} has no check yet");
        return 2;
    }
    let mut violations = Vec::new();
    let mut rules = Vec::new();
    // regression corpus first: saved cases (earlier findings, hand-written shapes) through the same oracles
    let corpus = ctx.verif_dir.join("replays/corpus").join(id);
    if let Ok(rd) = std::fs::read_dir(&corpus) {
        let mut files: Vec<_> = rd.flatten().map(|e| e.path()).filter(|p| p.extension().is_some_and(|x| x == "json")).collect();
        files.sort();
        for f in files {
            let body: serde_json::Value = serde_json::from_slice(&std::fs::read(&f).expect("harness: read corpus file")).expect("harness: corpus file is not JSON");
            let engine = body["engine"].as_str().unwrap_or("E1").to_string();
            let case = body["case"].clone();
            let res = guarded(|| replay_case(id, &engine, case.clone()));
            let mut a = acc.lock().unwrap();
            *a.counters.entry("corpus_cases".into()).or_default() += 1;
            match res {
                Ok(m) => a.absorb(&m, || case.clone()),
                Err(fl) => {
                    if ctx.known_match(&fl.sig).is_some() {
                        *a.excluded_known.entry(fl.sig.clone()).or_default() += 1;
                    } else {
                        violations.push(Violation { sig: fl.sig, detail: format!("corpus case {}: {}", f.display(), fl.detail), case, engine });
                    }
                }
            }
        }
    }
    for p in &ps {
        if !violations.is_empty() {
            break;
        }
        rules.push(p.rule.clone());
        if let Some(v) = (p.run)(&ctx, &acc) {
            violations.push(v);
            break;
        }
    }
    let acc = acc.into_inner().unwrap();
    Finish { ctx: &ctx, acc, rule: rules.join(" || "), assumptions: assumptions(id), violations, extra: Default::default() }.done()
}

fn replay_case(id: &'static str, engine: &str, case: serde_json::Value) -> R<CaseMeta> {
    match engine {
        "E1" => props_seq::replay_seq(id, case),
        "E2" => props_e2::replay_e2(id, case),
        "E2PL" => props_e2::replay_e2_pl(case),
        "E2FD" => props_e2::replay_c20_fault(case),
        "E2F" => props_e2::replay_c14(case),
        "E3" => props_e3::replay_e3(id, case),
        "E3E" => props_e3::replay_e3_enum(id, case),
        "STRESS-R" | "STRESS-L" | "STRESS-D" | "STRESS-M" => props_e3::replay_stress(engine, case),
        "C11" => props_c11::replay_c11(case),
        "C08P" => props_misc::replay_c08_planted(case),
        "C18X" => props_misc::replay_c18x(case),
        "C19I" => props_misc::replay_c19i(case),
        "C19P" => props_misc::replay_c19p(case),
        "C02L" => props_misc::replay_c02l(case),
        "VLT" => props_misc::replay_vlt(case),
        "XDEV" => props_e2::replay_xdev(case),
        "C17" => props_misc::replay_c17(case),
        "C19" => props_misc::replay_c19(case),
        "C10" => props_misc::replay_c10(case),
        "C16" => props_misc::replay_c16(case),
        other => panic!("harness: unknown engine {other} in replay"),
    }
}

fn replay(path: &str) -> i32 {
    let body: serde_json::Value =
        serde_json::from_slice(&std::fs::read(path).expect("harness: cannot read replay file")).expect("harness: replay file is not JSON");
    let prop = body["property"].as_str().expect("harness: replay lacks property").to_string();
    let engine = body["engine"].as_str().unwrap_or("E1").to_string();
    let case = body["case"].clone();
    let id: &'static str = IDS.iter().find(|i| **i == prop).copied().expect("harness: unknown property in replay");
    let res = guarded(|| replay_case(id, &engine, case.clone()));
    match res {
        Ok(_) => {
            println!("REPLAY-PASS property={id} file={path}");
            0
        }
        Err(f) => {
            println!("VIOLATION property={id} replay={path}");
            println!("  signature: {}", f.sig);
            println!("  detail: {}", f.detail);
            1
        }
    }
}

fn main() {
    install_panic_hook();
    common::clean_stale_scratch();
    let args: Vec<String> = std::env::args().collect();
    let code = match args.get(1).map(|s| s.as_str()) {
        Some("run") => {
            let id = args.get(2).expect("harness: usage: vcheck run <ID> [quick|thorough]");
            let id: &'static str = IDS.iter().find(|i| *i == id).copied().expect("harness: unknown property id");
            let tier = match args.get(3).map(|s| s.as_str()).or(std::env::var("VERIF_TIER").ok().as_deref()) {
                Some("thorough") => Tier::Thorough,
                _ => Tier::Quick,
            };
            let seed = std::env::var("VERIF_SEED").ok().and_then(|s| s.parse::<i64>().ok()).unwrap_or(0) as u64;
            run_prop(id, tier, seed)
        }
        Some("worker") => {
            let code = proc::worker_main(&args[2..]);
            std::process::exit(code);
        }
        Some("gen-corpus") => {
            props_misc::gen_corpus(std::path::Path::new(args.get(2).expect("harness: usage: vcheck gen-corpus <dir>")));
            std::process::exit(0);
        }
        Some("replay-bytes") => {
            // a libFuzzer artifact: raw bytes, judged by the in-process C16 oracle
            let data = std::fs::read(args.get(2).expect("harness: usage: vcheck replay-bytes <file>")).expect("harness: read artifact");
            let case = serde_json::json!({ "Bytes": { "data": data } });
            let code = match guarded(|| props_misc::replay_c16(case.clone())) {
                Ok(_) => {
                    // the in-process oracle does not fail on it: also try it as a path string
                    let s = String::from_utf8_lossy(&data).to_string();
                    match guarded(|| props_misc::replay_c16(serde_json::json!({ "Path": { "s": s } }))) {
                        Ok(_) => {
                            println!("REPLAY-PASS property=C16 file={}", args[2]);
                            0
                        }
                        Err(f) => {
                            println!("VIOLATION property=C16 replay={}\n  signature: {}\n  detail: {}", args[2], f.sig, f.detail);
                            1
                        }
                    }
                }
                Err(f) => {
                    println!("VIOLATION property=C16 replay={}\n  signature: {}\n  detail: {}", args[2], f.sig, f.detail);
                    1
                }
            };
            common::remove_own_scratch();
            std::process::exit(code);
        }
        Some("lockprobe") => {
            let code = props_c11::lockprobe_main(&args[2..]);
            std::process::exit(code);
        }
        Some("forkserver") => {
            let code = proc::forkserver_main();
            std::process::exit(code);
        }
        Some("replay") => replay(args.get(2).expect("harness: usage: vcheck replay <file>")),
        _ => {
            eprintln!("usage: vcheck run <ID> [quick|thorough] | vcheck replay <file>");
            2
        }
    };
    common::remove_own_scratch();
    std::process::exit(code);
}
