//! Counting global allocator: per-thread live/peak heap bytes while armed (C16, C17).

use std::alloc::{GlobalAlloc, Layout, System};
use std::cell::Cell;

pub struct Counting;

thread_local! {
    static ARMED: Cell<bool> = const { Cell::new(false) };
    static LIVE: Cell<i64> = const { Cell::new(0) };
    static PEAK: Cell<i64> = const { Cell::new(0) };
    static LARGEST: Cell<i64> = const { Cell::new(0) };
}

/// Requests at or above this size while a measurement is armed can only come from a length or count
/// field taken from the input; they would abort the process ("memory allocation failed"), so the
/// allocator reports them itself: replay file, VIOLATION line, exit 1.
pub const OVERSIZE: usize = 1 << 30;

pub struct CaseCtx {
    pub replay_path: std::ffi::CString,
    pub body: Vec<u8>,
    pub line: Vec<u8>,
}

thread_local! {
    static CASE_CTX: Cell<*const CaseCtx> = const { Cell::new(std::ptr::null()) };
}

/// Registers the case that is about to run on this thread (used only by the oversize reporter).
pub fn set_case_ctx(prop: &str, engine: &str, case: &serde_json::Value, what: &str) {
    let dir = std::env::var("VERIF_DIR").unwrap_or_else(|_| "/verif".into());
    let dir = format!("{dir}/replays/{prop}");
    let _ = std::fs::create_dir_all(&dir);
    let h = crate::common::hash_json(case);
    let path = format!("{dir}/{engine}-oversize-{h:016x}.json");
    let body = serde_json::to_vec_pretty(&serde_json::json!({
        "v": 1, "property": prop, "engine": engine, "signature": format!("{what}/oversize-allocation"),
        "detail": "a single allocation request of 1 GiB or more was made while decoding/reading (size taken from the input)",
        "case": case,
    }))
    .unwrap_or_default();
    let line = format!("VIOLATION property={prop} replay={path}\n  signature: {what}/oversize-allocation\n").into_bytes();
    let ctx = Box::new(CaseCtx { replay_path: std::ffi::CString::new(path).unwrap_or_default(), body, line });
    let old = CASE_CTX.with(|c| c.replace(Box::into_raw(ctx)));
    if !old.is_null() {
        drop(unsafe { Box::from_raw(old as *mut CaseCtx) });
    }
}

#[cold]
fn oversize(size: usize) {
    let armed = ARMED.try_with(|a| a.get()).unwrap_or(false);
    if !armed {
        return;
    }
    let p = CASE_CTX.try_with(|c| c.get()).unwrap_or(std::ptr::null());
    unsafe {
        if !p.is_null() {
            let ctx = &*p;
            let fd = libc::open(ctx.replay_path.as_ptr(), libc::O_CREAT | libc::O_WRONLY | libc::O_TRUNC, 0o644);
            if fd >= 0 {
                libc::write(fd, ctx.body.as_ptr() as *const libc::c_void, ctx.body.len());
                libc::close(fd);
            }
            libc::write(1, ctx.line.as_ptr() as *const libc::c_void, ctx.line.len());
        } else {
            let msg = b"HARNESS-ERROR: oversize allocation without a registered case\n";
            libc::write(2, msg.as_ptr() as *const libc::c_void, msg.len());
            let _ = size;
            libc::_exit(2);
        }
        libc::_exit(1);
    }
}

#[inline]
fn add(n: i64) {
    // try_with: the allocator may be called during thread teardown
    let _ = ARMED.try_with(|a| {
        if a.get() {
            let _ = LIVE.try_with(|l| {
                let v = l.get() + n;
                l.set(v);
                let _ = PEAK.try_with(|p| {
                    if v > p.get() {
                        p.set(v);
                    }
                });
            });
            if n > 0 {
                let _ = LARGEST.try_with(|g| {
                    if n > g.get() {
                        g.set(n);
                    }
                });
            }
        }
    });
}

unsafe impl GlobalAlloc for Counting {
    unsafe fn alloc(&self, l: Layout) -> *mut u8 {
        if l.size() >= OVERSIZE {
            oversize(l.size());
        }
        let p = unsafe { System.alloc(l) };
        if !p.is_null() {
            add(l.size() as i64);
        }
        p
    }
    unsafe fn dealloc(&self, p: *mut u8, l: Layout) {
        unsafe { System.dealloc(p, l) };
        add(-(l.size() as i64));
    }
    unsafe fn alloc_zeroed(&self, l: Layout) -> *mut u8 {
        if l.size() >= OVERSIZE {
            oversize(l.size());
        }
        let p = unsafe { System.alloc_zeroed(l) };
        if !p.is_null() {
            add(l.size() as i64);
        }
        p
    }
    unsafe fn realloc(&self, p: *mut u8, l: Layout, new: usize) -> *mut u8 {
        if new >= OVERSIZE {
            oversize(new);
        }
        let q = unsafe { System.realloc(p, l, new) };
        if !q.is_null() {
            add(new as i64 - l.size() as i64);
        }
        q
    }
}

/// Runs `f` on this thread and returns (result, peak live bytes allocated during the call, largest single request).
pub fn measure<T>(f: impl FnOnce() -> T) -> (T, u64, u64) {
    LIVE.with(|l| l.set(0));
    PEAK.with(|p| p.set(0));
    LARGEST.with(|g| g.set(0));
    ARMED.with(|a| a.set(true));
    struct Disarm;
    impl Drop for Disarm {
        fn drop(&mut self) {
            ARMED.with(|a| a.set(false));
        }
    }
    let d = Disarm;
    let r = f();
    drop(d);
    (r, PEAK.with(|p| p.get()).max(0) as u64, LARGEST.with(|g| g.get()).max(0) as u64)
}
