//! E1 — sequential model-based interpreter: runs a generated history against a real store and an
//! ordered-map model; after every step evaluates the lenses that the calling property armed.

use std::collections::{BTreeMap, BTreeSet, HashMap};
use std::fs::File;
use std::io::{BufReader, Read};
use std::num::NonZeroU64;
use std::ops::Bound;
use std::path::{Path, PathBuf};

use cassadilia::{BlobHash, Cas, CasInner, Config, LibError, SyncMode, Transaction};
use serde::{Deserialize, Serialize};

use crate::common::*;
use crate::engine::{Fail, R};
use crate::fail;
use crate::ondisk;

#[derive(Clone, Debug, Serialize, Deserialize, PartialEq, Eq)]
pub struct Cfg {
    pub kt: String,
    pub n: u64,
    pub asyn: bool,
    pub scan: bool,
    pub verify: bool,
}

impl Cfg {
    pub fn config(&self, asyn: bool) -> Config {
        Config {
            sync_mode: if asyn { SyncMode::Async } else { SyncMode::Sync },
            num_ops_per_wal: NonZeroU64::new(self.n.max(1)).unwrap(),
            pre_create_cas_dirs: false,
            scan_orphans_on_startup: self.scan,
            verify_blob_integrity: self.verify,
            fail_on_integrity_errors: true,
        }
    }
}

#[derive(Clone, Copy, Debug, Serialize, Deserialize, PartialEq, Eq)]
pub enum B {
    U,
    I(u8),
    E(u8),
}

#[derive(Clone, Debug, Serialize, Deserialize, PartialEq, Eq)]
pub enum Step {
    Put { k: u8, c: C, cuts: Vec<u32> },
    Begin { s: u8, k: u8 },
    Write { s: u8, c: C },
    Finish { s: u8 },
    Abort { s: u8 },
    Remove { k: u8 },
    RemoveRange { lo: B, hi: B },
    Checkpoint,
    Reopen { flip: bool },
    OpenReader { r: u8, k: u8 },
    DrainReader { r: u8 },
    GetRange { k: u8, s: u64, e: u64 },
    /// put `n` extra keys (outside the pool, derived from 8-byte little-endian counters) with one small content;
    /// only used by the bulk-range part of C03 (key types whose from_key_bytes accepts 8 bytes)
    Bulk { n: u16 },
}

#[derive(Clone, Debug, Serialize, Deserialize)]
pub struct SeqCase {
    pub cfg: Cfg,
    pub steps: Vec<Step>,
}

#[derive(Clone, Copy, Default, Debug)]
pub struct Lenses {
    pub reads: bool,
    pub reopen: bool,
    pub listing: bool,
    pub stats: bool,
    pub cashash: bool,
    pub abort: bool,
    pub ident: bool,
    /// like ident, but only for keys on which a transaction was aborted earlier (C13)
    pub ident_after_abort: bool,
    pub ondisk: bool,
    /// an unexpected Err from a mutating call discards the case instead of failing it
    pub discard_on_op_err: bool,
}

#[derive(Default, Debug, Clone)]
pub struct Events {
    pub m: BTreeMap<&'static str, u64>,
}
impl Events {
    pub fn ev(&mut self, k: &'static str) {
        *self.m.entry(k).or_default() += 1;
    }
    pub fn get(&self, k: &str) -> u64 {
        self.m.get(k).copied().unwrap_or(0)
    }
    pub fn has(&self, k: &str) -> bool {
        self.get(k) > 0
    }
}

pub struct SeqOut {
    pub ev: Events,
    pub discarded: bool,
    pub steps_run: u64,
}

struct Tx<K: HKey> {
    tx: Transaction<'static, K>,
    key: K,
    buf: Vec<u8>,
}

struct Sess<K: HKey> {
    // field order matters for drop order: transactions first, then the handle
    txs: Vec<Option<Tx<K>>>,
    readers: Vec<Option<(BufReader<File>, Bytes, bool)>>,
    cas: Option<Cas<K>>,
    dir: PathBuf,
    cfg: Cfg,
    asyn: bool,
    pool: Vec<K>,
    model: BTreeMap<K, Bytes>,
    lenses: Lenses,
    ev: Events,
    /// number of WAL records appended since creation (model-side)
    v: u64,
    muts_since_reopen: u64,
    last_was_checkpoint: bool,
    ref_hist: HashMap<[u8; 32], Vec<u32>>,
    ever_live: BTreeSet<[u8; 32]>,
    // C20 cross-history tracking
    seen_versions: BTreeMap<u64, [u8; 32]>,
    step_no: usize,
    aborted_keys: BTreeSet<K>,
    aborts_since_reopen: u64,
}

fn lib_err_kind(e: &LibError) -> String {
    let s = format!("{e:?}");
    s.split(|c: char| !c.is_alphanumeric()).next().unwrap_or("Err").to_string()
}

fn static_inner<K>(cas: &Cas<K>) -> &'static CasInner<K> {
    // The transactions created from this reference are always dropped before the handle
    // (Sess field order + explicit clearing before reopen).
    unsafe { &*std::sync::Arc::as_ptr(cas.as_arc()) }
}

fn bound_of<K: HKey>(pool: &[K], b: B) -> (Bound<K>, Option<usize>) {
    match b {
        B::U => (Bound::Unbounded, None),
        B::I(i) => {
            let i = (i as usize).min(pool.len() - 1);
            (Bound::Included(pool[i].clone()), Some(i))
        }
        B::E(i) => {
            let i = (i as usize).min(pool.len() - 1);
            (Bound::Excluded(pool[i].clone()), Some(i))
        }
    }
}

/// Normalise a bound pair so that it satisfies BTreeMap::range's precondition.
pub fn normalise_bounds(lo: B, hi: B, pool_len: usize) -> (B, B) {
    let idx = |b: B| match b {
        B::U => None,
        B::I(i) | B::E(i) => Some((i as usize).min(pool_len - 1)),
    };
    match (idx(lo), idx(hi)) {
        (Some(a), Some(b)) if a > b => (hi, lo),
        (Some(a), Some(b)) if a == b => {
            if matches!(lo, B::E(_)) && matches!(hi, B::E(_)) {
                (lo, B::I(a as u8))
            } else {
                (lo, hi)
            }
        }
        _ => (lo, hi),
    }
}

impl<K: HKey> Sess<K> {
    fn cas(&self) -> &Cas<K> {
        self.cas.as_ref().expect("harness: store not open")
    }
    fn key(&self, k: u8) -> K {
        self.pool[(k as usize).min(self.pool.len() - 1)].clone()
    }

    fn open(&mut self) -> R<()> {
        match Cas::<K>::open(&self.dir, self.cfg.config(self.asyn)) {
            Ok(c) => {
                self.cas = Some(c);
                Ok(())
            }
            Err(e) => fail!(format!("open-err/{}", lib_err_kind(&e)), "open failed in an error-free environment: {e:?}"),
        }
    }

    fn refcounts(&self) -> BTreeMap<[u8; 32], (u32, u64)> {
        let mut m: BTreeMap<[u8; 32], (u32, u64)> = BTreeMap::new();
        for v in self.model.values() {
            let e = m.entry(b3(v)).or_insert((0, v.len() as u64));
            e.0 += 1;
        }
        m
    }

    fn note_refcounts(&mut self) {
        let rc = self.refcounts();
        if rc.values().any(|(c, _)| *c >= 2) {
            self.ev.ev("shared_now");
        }
        let mut all: BTreeSet<[u8; 32]> = self.ever_live.clone();
        all.extend(rc.keys().copied());
        for h in all {
            let cur = rc.get(&h).map_or(0, |x| x.0);
            let hist = self.ref_hist.entry(h).or_default();
            if hist.last().copied() != Some(cur) {
                hist.push(cur);
            }
        }
        self.ever_live.extend(rc.keys().copied());
    }

    fn finish_events(&mut self) {
        for hist in self.ref_hist.values() {
            let w3: Vec<&[u32]> = hist.windows(3).collect();
            if w3.iter().any(|w| w == &[2, 1, 0]) {
                self.ev.ev("rc_2_1_0");
            }
            if w3.iter().any(|w| w == &[1, 0, 1]) {
                self.ev.ev("rc_1_0_1");
            }
            let distinct: BTreeSet<u32> = hist.iter().copied().collect();
            if distinct.len() >= 3 {
                self.ev.ev("rc_3_values");
            }
        }
    }

    fn op_err(&mut self, what: &str, e: &LibError) -> Fail {
        Fail::new(format!("op-err/{what}/{}", lib_err_kind(e)), format!("{what} returned {e:?} in an error-free environment (step {})", self.step_no))
    }

    fn apply_put(&mut self, key: K, content: Bytes) {
        let newh = b3(&content);
        match self.model.get(&key) {
            Some(old) if b3(old) == newh => self.ev.ev("same_reput"),
            Some(_) => self.ev.ev("overwrite_diff"),
            None => {}
        }
        if self.ever_live.contains(&newh) && !self.model.values().any(|v| b3(v) == newh) {
            self.ev.ev("put_back_old_content");
        }
        self.model.insert(key, content);
        self.wal_append();
    }

    fn wal_append(&mut self) {
        let before_seg = if self.v == 0 { 0 } else { (self.v - 1) / self.cfg.n };
        self.v += 1;
        let after_seg = (self.v - 1) / self.cfg.n;
        if after_seg != before_seg {
            self.ev.ev("rollover");
        }
        self.muts_since_reopen += 1;
        self.last_was_checkpoint = false;
    }

    fn step(&mut self, st: &Step) -> R<bool> {
        // returns Ok(false) if the case must be discarded
        match st {
            Step::Put { k, c, cuts } => {
                let key = self.key(*k);
                let content = c.bytes();
                let inner = static_inner(self.cas());
                let mut tx = match inner.put(key.clone()) {
                    Ok(t) => t,
                    Err(e) => return self.maybe_discard("put", &e),
                };
                let mut off = 0usize;
                let mut nonempty_chunks = 0;
                for cut in cuts {
                    let l = (*cut as usize).min(content.len() - off);
                    if l == 0 {
                        self.ev.ev("empty_chunk");
                    } else {
                        nonempty_chunks += 1;
                    }
                    if l > 8192 {
                        self.ev.ev("chunk_gt_8k");
                    }
                    if l > 65536 {
                        self.ev.ev("chunk_gt_64k");
                    }
                    if let Err(e) = tx.write(&content[off..off + l]) {
                        fail!("op-err/write", "Transaction::write failed: {e:?}");
                    }
                    off += l;
                }
                if off < content.len() {
                    nonempty_chunks += 1;
                    if content.len() - off > 8192 {
                        self.ev.ev("chunk_gt_8k");
                    }
                    if let Err(e) = tx.write(&content[off..]) {
                        fail!("op-err/write", "Transaction::write failed: {e:?}");
                    }
                }
                if nonempty_chunks >= 2 {
                    self.ev.ev("multi_chunk");
                }
                if let Err(e) = tx.finish() {
                    return self.maybe_discard("finish", &e);
                }
                self.ev.ev("put");
                self.apply_put(key.clone(), content.clone());
                if self.lenses.ident || (self.lenses.ident_after_abort && self.aborted_keys.contains(&key)) {
                    self.check_ident(&key, &content)?;
                }
            }
            Step::Begin { s, k } => {
                let s = (*s as usize).min(self.txs.len() - 1);
                if self.txs[s].is_some() {
                    return Ok(true);
                }
                let key = self.key(*k);
                let before = self.lenses.abort.then(|| self.disk_fingerprint());
                let inner = static_inner(self.cas());
                let tx = match inner.put(key.clone()) {
                    Ok(t) => t,
                    Err(e) => return self.maybe_discard("put", &e),
                };
                if self.txs.iter().flatten().any(|t| t.key == key) {
                    self.ev.ev("begin_same_key_open");
                }
                self.txs[s] = Some(Tx { tx, key, buf: Vec::new() });
                self.ev.ev("begin");
                if let Some(b) = before {
                    self.check_fingerprint_same(&b, "begin")?;
                }
            }
            Step::Write { s, c } => {
                let s = (*s as usize).min(self.txs.len() - 1);
                if self.txs[s].is_none() {
                    return Ok(true);
                }
                let before = self.lenses.abort.then(|| self.disk_fingerprint());
                let data = c.bytes();
                let t = self.txs[s].as_mut().unwrap();
                if let Err(e) = t.tx.write(&data) {
                    fail!("op-err/write", "Transaction::write failed: {e:?}");
                }
                t.buf.extend_from_slice(&data);
                if data.len() > 65536 {
                    self.ev.ev("chunk_gt_64k");
                }
                self.ev.ev("write");
                if let Some(b) = before {
                    self.check_fingerprint_same(&b, "write")?;
                }
            }
            Step::Finish { s } => {
                let s = (*s as usize).min(self.txs.len() - 1);
                let Some(t) = self.txs[s].take() else { return Ok(true) };
                let Tx { tx, key, buf } = t;
                if self.txs.iter().flatten().any(|o| o.key == key) {
                    self.ev.ev("finish_while_other_tx_same_key");
                }
                if let Err(e) = tx.finish() {
                    return self.maybe_discard("finish", &e);
                }
                self.ev.ev("finish");
                let content: Bytes = std::sync::Arc::new(buf);
                self.apply_put(key.clone(), content.clone());
                if self.lenses.ident || (self.lenses.ident_after_abort && self.aborted_keys.contains(&key)) {
                    self.check_ident(&key, &content)?;
                }
            }
            Step::Abort { s } => {
                let s = (*s as usize).min(self.txs.len() - 1);
                let Some(t) = self.txs[s].take() else { return Ok(true) };
                let before = self.lenses.abort.then(|| self.disk_fingerprint());
                let staging_before = list_files(&self.dir.join("staging")).len();
                let wrote = !t.buf.is_empty();
                let over_value = self.model.contains_key(&t.key);
                let other_open = self.txs.iter().flatten().any(|o| o.key == t.key);
                let same_as_live = self.model.values().any(|v| **v == t.buf);
                let akey = t.key.clone();
                let obs_before = self.lenses.abort.then(|| self.observable());
                drop(t);
                self.ev.ev("abort");
                if wrote && (over_value || other_open) {
                    self.ev.ev("abort_nontrivial");
                }
                if same_as_live {
                    self.ev.ev("abort_content_equals_live_blob");
                }
                if let Some(b) = before {
                    self.check_fingerprint_same(&b, "abort")?;
                    let staging_after = list_files(&self.dir.join("staging")).len();
                    let open = self.txs.iter().flatten().count();
                    if staging_after > open {
                        fail!("abort/staging-file-remains", "staging had {staging_before} files before the abort and {staging_after} after, with {open} transactions still open");
                    }
                    let obs_after = self.observable();
                    if Some(&obs_after) != obs_before.as_ref() {
                        fail!("abort/observable-changed", "abort changed observable state:\n before={}\n after={}", brief(obs_before.as_ref().unwrap()), brief(&obs_after));
                    }
                }
                self.aborted_keys.insert(akey);
                self.aborts_since_reopen += 1;
            }
            Step::Remove { k } => {
                let key = self.key(*k);
                let exp = self.model.contains_key(&key);
                match self.cas().remove(&key) {
                    Ok(got) => {
                        if self.lenses.reads && got != exp {
                            fail!("reads/remove-return", "remove({key:?}) returned {got}, model says {exp}");
                        }
                    }
                    Err(e) => return self.maybe_discard("remove", &e),
                }
                if exp {
                    self.model.remove(&key);
                    self.wal_append();
                    self.ev.ev("remove_present");
                } else {
                    self.ev.ev("remove_absent");
                }
            }
            Step::RemoveRange { lo, hi } => {
                let (lo, hi) = normalise_bounds(*lo, *hi, self.pool.len());
                let (bl, _) = bound_of(&self.pool, lo);
                let (bh, _) = bound_of(&self.pool, hi);
                let keys: Vec<K> = self.model.range((bl.clone(), bh.clone())).map(|(k, _)| k.clone()).collect();
                match self.cas().remove_range((bl, bh)) {
                    Ok(n) => {
                        if self.lenses.reads && n != keys.len() {
                            fail!("reads/remove_range-return", "remove_range({lo:?},{hi:?}) returned {n}, model removes {}", keys.len());
                        }
                    }
                    Err(e) => return self.maybe_discard("remove_range", &e),
                }
                if !keys.is_empty() {
                    let hashes: BTreeSet<[u8; 32]> = keys.iter().map(|k| b3(&self.model[k])).collect();
                    for k in &keys {
                        self.model.remove(k);
                    }
                    self.wal_append();
                    if keys.len() >= 2 {
                        self.ev.ev("rr_multi");
                    }
                    if hashes.len() < keys.len() {
                        self.ev.ev("rr_over_shared");
                    }
                } else {
                    self.ev.ev("rr_empty");
                }
                if matches!((lo, hi), (B::U, B::U)) {
                    self.ev.ev("rr_full");
                }
            }
            Step::Checkpoint => {
                if let Err(e) = self.cas().checkpoint() {
                    return self.maybe_discard("checkpoint", &e);
                }
                self.ev.ev("checkpoint");
                if self.v > 0 && self.v % self.cfg.n == 0 {
                    self.ev.ev("checkpoint_at_boundary");
                }
                self.last_was_checkpoint = true;
            }
            Step::Reopen { flip } => {
                let open_tx_dropped = self.txs.iter().flatten().count() as u64;
                let abort_relevant = self.lenses.abort && (self.aborts_since_reopen + open_tx_dropped) > 0;
                let snap_before = (self.lenses.reopen || abort_relevant).then(|| self.observable());
                // close open transactions (aborted in the model), then the handle
                for t in self.txs.iter_mut() {
                    *t = None;
                }
                self.cas = None;
                if *flip {
                    self.asyn = !self.asyn;
                    self.ev.ev("sync_flip");
                }
                self.ev.ev("reopen");
                if self.cfg.n == 1 || (self.v > 0 && self.v % self.cfg.n == 0) {
                    self.ev.ev("reopen_at_boundary");
                }
                if self.v % self.cfg.n == 1 {
                    self.ev.ev("reopen_at_first_of_segment");
                }
                if self.last_was_checkpoint {
                    self.ev.ev("reopen_after_checkpoint");
                }
                if self.muts_since_reopen > 0 && self.ev.get("reopen") >= 2 {
                    self.ev.ev("reopen_with_muts_between");
                }
                if self.refcounts().values().any(|(c, _)| *c >= 2) {
                    self.ev.ev("reopen_while_shared");
                }
                self.muts_since_reopen = 0;
                self.aborts_since_reopen = 0;
                self.open()?;
                if let Some(b) = snap_before {
                    let a = self.observable();
                    if a != b {
                        fail!("reopen/observable-changed", "observable state differs across a clean reopen:\n before={}\n after={}", brief(&b), brief(&a));
                    }
                    if abort_relevant {
                        let st = list_files(&self.dir.join("staging")).len();
                        if st != 0 {
                            fail!("abort/staging-file-remains", "staging/ holds {st} files after reopening a store with abandoned transactions");
                        }
                        self.ev.ev("reopen_after_abort");
                    }
                    let m = self.model_observable();
                    if self.lenses.reopen && a != m {
                        fail!("reopen/differs-from-model", "state after reopen differs from the model:\n store={}\n model={}", brief(&a), brief(&m));
                    }
                }
            }
            Step::OpenReader { r, k } => {
                let r = (*r as usize).min(self.readers.len() - 1);
                let key = self.key(*k);
                match self.cas().get_reader(&key) {
                    Ok(Some(rd)) => {
                        let Some(exp) = self.model.get(&key) else {
                            fail!("reads/reader-for-absent", "get_reader returned a reader for an absent key {key:?}");
                        };
                        self.readers[r] = Some((rd, exp.clone(), false));
                        self.ev.ev("open_reader");
                    }
                    Ok(None) => {
                        if self.model.contains_key(&key) && (self.lenses.reads || self.lenses.cashash) {
                            fail!("reads/reader-none", "get_reader returned None for present key {key:?}");
                        }
                    }
                    Err(e) => fail!(format!("reads/get_reader-err/{}", lib_err_kind(&e)), "get_reader failed: {e:?}"),
                }
            }
            Step::DrainReader { r } => {
                let r = (*r as usize).min(self.readers.len() - 1);
                if let Some((mut rd, exp, _)) = self.readers[r].take() {
                    let live = self.model.values().any(|v| b3(v) == b3(&exp));
                    let mut got = Vec::new();
                    if let Err(e) = rd.read_to_end(&mut got) {
                        fail!("reader/io-error", "long-lived reader failed: {e}");
                    }
                    if !live {
                        self.ev.ev("drain_after_unlink");
                    }
                    self.ev.ev("drain_reader");
                    if (self.lenses.cashash || self.lenses.reads) && got != **exp {
                        fail!("reader/content-changed", "long-lived reader streamed {} bytes (hash {}), expected the original {} bytes", got.len(), hexs(&b3(&got)[..6]), exp.len());
                    }
                }
            }
            Step::Bulk { .. } => {}
            Step::GetRange { k, s, e } => {
                let key = self.key(*k);
                let res = self.cas().get_range(&key, *s, *e);
                if self.lenses.reads {
                    self.judge_range(&key, *s, *e, res)?;
                }
            }
        }
        Ok(true)
    }

    fn maybe_discard(&mut self, what: &str, e: &LibError) -> R<bool> {
        if self.lenses.discard_on_op_err {
            return Ok(false);
        }
        Err(self.op_err(what, e))
    }

    fn judge_range(&self, key: &K, s: u64, e: u64, res: Result<Option<bytes::Bytes>, LibError>) -> R<()> {
        match (self.model.get(key), res) {
            (None, Ok(None)) => Ok(()),
            (None, other) => fail!("reads/get_range-absent", "get_range on absent key returned {other:?}"),
            (Some(c), res) => {
                let l = c.len() as u64;
                if s <= e {
                    let a = s.min(l) as usize;
                    let b = e.min(l) as usize;
                    match res {
                        Ok(Some(got)) if got[..] == c[a..b] => Ok(()),
                        other => fail!("reads/get_range-mismatch", "get_range({s},{e}) on len {l}: got {:?}", other.map(|o| o.map(|b| b.len()))),
                    }
                } else if s < l {
                    match res {
                        Err(_) => Ok(()),
                        other => fail!("reads/get_range-inverted-accepted", "get_range({s},{e}) with start>end, start<len {l} returned {:?}", other.map(|o| o.map(|b| b.len()))),
                    }
                } else {
                    Ok(()) // unspecified
                }
            }
        }
    }

    // ---- lenses ----

    fn check_reads(&self) -> R<()> {
        let cas = self.cas();
        for key in &self.pool {
            let exp = self.model.get(key);
            match cas.get(key) {
                Ok(got) => match (exp, got) {
                    (None, None) => {}
                    (Some(e), Some(g)) if g[..] == e[..] => {}
                    (e, g) => fail!("reads/get-mismatch", "get({key:?}) = {:?} bytes, model {:?} bytes", g.map(|b| b.len()), e.map(|b| b.len())),
                },
                Err(e) => fail!(format!("reads/get-err/{}", lib_err_kind(&e)), "get({key:?}) failed: {e:?}"),
            }
            match cas.get_size(key) {
                Ok(got) if got == exp.map(|e| e.len() as u64) => {}
                other => fail!("reads/get_size-mismatch", "get_size({key:?}) = {other:?}, model {:?}", exp.map(|e| e.len())),
            }
            match cas.get_reader(key) {
                Ok(None) if exp.is_none() => {}
                Ok(Some(mut rd)) if exp.is_some() => {
                    let mut buf = Vec::new();
                    if let Err(e) = rd.read_to_end(&mut buf) {
                        fail!("reads/reader-io", "reader failed: {e}");
                    }
                    if buf[..] != exp.unwrap()[..] {
                        fail!("reads/get_reader-mismatch", "get_reader({key:?}) streamed {} bytes, model {}", buf.len(), exp.unwrap().len());
                    }
                }
                Ok(o) => fail!("reads/get_reader-presence", "get_reader({key:?}) presence {} vs model {}", o.is_some(), exp.is_some()),
                Err(e) => fail!(format!("reads/get_reader-err/{}", lib_err_kind(&e)), "get_reader failed: {e:?}"),
            }
            let l = exp.map_or(0, |e| e.len() as u64);
            for (s, e) in [(0, l), (0, 0), (1.min(l), l.saturating_sub(1).max(1.min(l))), (l / 2, l + 7), (l, l + 1), (l + 3, l + 9)] {
                let res = cas.get_range(key, s, e);
                self.judge_range(key, s, e, res)?;
            }
        }
        let g = cas.read_index_state();
        if g.len() != self.model.len() || g.is_empty() != self.model.is_empty() {
            fail!("reads/len", "len {} / is_empty {} vs model len {}", g.len(), g.is_empty(), self.model.len());
        }
        let got: Vec<(K, [u8; 32], u64)> = g.iter().map(|(k, i)| (k.clone(), *i.blob_hash.as_bytes(), i.blob_size)).collect();
        let exp: Vec<(K, [u8; 32], u64)> = self.model.iter().map(|(k, v)| (k.clone(), b3(v), v.len() as u64)).collect();
        if got != exp {
            fail!("reads/iter-mismatch", "iteration yields {:?}, model {:?}", got.iter().map(|x| &x.0).collect::<Vec<_>>(), exp.iter().map(|x| &x.0).collect::<Vec<_>>());
        }
        let snap = g.keys_snapshot();
        if snap.len() != exp.len() || !snap.iter().zip(exp.iter()).all(|((k, i), e)| *k == e.0 && *i.blob_hash.as_bytes() == e.1 && i.blob_size == e.2) {
            fail!("reads/keys_snapshot-mismatch", "keys_snapshot differs from model");
        }
        for key in &self.pool {
            let e = self.model.get(key);
            if g.contains_key(key) != e.is_some() {
                fail!("reads/contains_key", "contains_key({key:?}) wrong");
            }
            let it = g.get_item(key);
            if it.map(|i| (*i.blob_hash.as_bytes(), i.blob_size)) != e.map(|v| (b3(v), v.len() as u64)) {
                fail!("reads/get_item", "get_item({key:?}) wrong");
            }
            if g.require_item(key).is_ok() != e.is_some() {
                fail!("reads/require_item", "require_item({key:?}) wrong");
            }
        }
        // range iteration: a deterministic family of bound pairs derived from the step number
        let pl = self.pool.len();
        let sn = self.step_no;
        let pairs = [
            (B::I((sn % pl) as u8), B::U),
            (B::U, B::E(((sn / 2) % pl) as u8)),
            (B::E((sn % pl) as u8), B::I(((sn * 7 + 3) % pl) as u8)),
            (B::I(((sn * 5 + 1) % pl) as u8), B::I(((sn * 3) % pl) as u8)),
        ];
        for (lo, hi) in pairs {
            let (lo, hi) = normalise_bounds(lo, hi, pl);
            let (bl, _) = bound_of(&self.pool, lo);
            let (bh, _) = bound_of(&self.pool, hi);
            let got: Vec<K> = g.range((bl.clone(), bh.clone())).map(|(k, _)| k.clone()).collect();
            let exp: Vec<K> = self.model.range((bl, bh)).map(|(k, _)| k.clone()).collect();
            if got != exp {
                fail!("reads/range-iter-mismatch", "range({lo:?},{hi:?}) yields {got:?}, model {exp:?}");
            }
        }
        Ok(())
    }

    fn expected_live(&self) -> BTreeMap<String, Bytes> {
        self.model.values().map(|v| (rel_path_of(&b3(v)), v.clone())).collect()
    }

    fn check_listing(&self) -> R<()> {
        let files = list_files(&self.dir.join("cas"));
        let exp = self.expected_live();
        let got: BTreeSet<&String> = files.keys().collect();
        let want: BTreeSet<&String> = exp.keys().collect();
        if got != want {
            let extra: Vec<_> = got.difference(&want).take(3).collect();
            let missing: Vec<_> = want.difference(&got).take(3).collect();
            if !missing.is_empty() {
                fail!("listing/blob-missing", "cas/ lacks referenced blobs {missing:?} (extra {extra:?}) at step {}", self.step_no);
            }
            fail!("listing/unreferenced-blob-left", "cas/ holds unreferenced files {extra:?} at step {}", self.step_no);
        }
        for (p, len) in &files {
            if exp[p].len() as u64 != *len {
                fail!("listing/blob-length", "blob {p} has {len} bytes, expected {}", exp[p].len());
            }
        }
        let open = self.txs.iter().flatten().count();
        let st = list_files(&self.dir.join("staging")).len();
        if st > open {
            fail!("listing/staging-leftover", "staging/ holds {st} files with {open} open transactions at step {}", self.step_no);
        }
        Ok(())
    }

    fn check_cashash(&self) -> R<()> {
        let root = self.dir.join("cas");
        for (rel, _) in list_files(&root) {
            let Some(h) = is_canonical_blob_rel(&rel) else {
                fail!("cashash/non-canonical-file", "file cas/{rel} is not at a canonical blob path");
            };
            let data = std::fs::read(root.join(&rel)).unwrap_or_default();
            if b3(&data) != h {
                fail!("cashash/content-mismatch", "cas/{rel} holds {} bytes hashing to {}", data.len(), hexs(&b3(&data)[..8]));
            }
        }
        Ok(())
    }

    fn check_stats(&self) -> R<()> {
        let cas = self.cas();
        let rc = self.refcounts();
        let g = cas.read_index_state();
        let got: BTreeMap<[u8; 32], u32> = g.known_blobs().map(|(h, c)| (*h.as_bytes(), *c)).collect();
        let exp: BTreeMap<[u8; 32], u32> = rc.iter().map(|(h, (c, _))| (*h, *c)).collect();
        if got != exp {
            fail!("stats/refcounts", "known_blobs {:?} vs model {:?} at step {}", got.values().collect::<Vec<_>>(), exp.values().collect::<Vec<_>>(), self.step_no);
        }
        for h in rc.keys() {
            if !g.contains_blob_hash(&BlobHash::from_bytes(*h)) {
                fail!("stats/contains_blob_hash", "contains_blob_hash false for a referenced blob");
            }
        }
        for i in 0..POOL_LENS.len() {
            let h = b3(&pool_content(i));
            if !rc.contains_key(&h) && g.contains_blob_hash(&BlobHash::from_bytes(h)) {
                fail!("stats/contains_blob_hash", "contains_blob_hash true for an unreferenced blob");
            }
        }
        let st = g.stats();
        let ub = rc.len() as u64;
        let tb: u64 = rc.values().map(|(_, l)| *l).sum();
        if st.cas.unique_blobs != ub || st.cas.total_bytes != tb {
            fail!("stats/cas-stats", "stats unique_blobs={} total_bytes={} vs model {ub}/{tb} at step {}", st.cas.unique_blobs, st.cas.total_bytes, self.step_no);
        }
        if cas.stats().cas != st.cas {
            fail!("stats/cas-stats", "Cas::stats() differs from guard stats");
        }
        for (k, v) in &self.model {
            let it = g.get_item(k);
            if it.map(|i| i.blob_size) != Some(v.len() as u64) {
                fail!("stats/item-size", "recorded size of {k:?} is {:?}, content has {} bytes", it.map(|i| i.blob_size), v.len());
            }
        }
        drop(g);
        for (k, v) in &self.model {
            match cas.get_size(k) {
                Ok(Some(s)) if s == v.len() as u64 => {}
                other => fail!("stats/get_size", "get_size({k:?}) = {other:?}, content has {} bytes", v.len()),
            }
        }
        Ok(())
    }

    fn check_ident(&mut self, key: &K, content: &Bytes) -> R<()> {
        let h = b3(content);
        let it = self.cas().read_index_state().get_item(key);
        match it {
            Some(i) if *i.blob_hash.as_bytes() == h && i.blob_size == content.len() as u64 => {}
            other => fail!("ident/item", "after commit get_item({key:?}) = {other:?}, expected hash {} size {}", hexs(&h[..8]), content.len()),
        }
        let p = self.dir.join("cas").join(rel_path_of(&h));
        match std::fs::read(&p) {
            Ok(d) if d[..] == content[..] => {}
            Ok(d) => fail!("ident/file-bytes", "file at the derived path holds {} bytes, content has {}", d.len(), content.len()),
            Err(e) => fail!("ident/file-missing", "no file at the path derived from blake3(content): {e}"),
        }
        self.ev.ev("ident_checked");
        Ok(())
    }

    /// index + wal files (name -> bytes hash) and cas listing
    fn disk_fingerprint(&self) -> (BTreeMap<String, (u64, u64)>, BTreeMap<String, u64>) {
        let mut meta = BTreeMap::new();
        if let Ok(rd) = std::fs::read_dir(&self.dir) {
            for e in rd.flatten() {
                let name = e.file_name().to_string_lossy().to_string();
                if name == "index" || name.ends_with("_index.wal") {
                    let d = std::fs::read(e.path()).unwrap_or_default();
                    meta.insert(name, (d.len() as u64, fnv(&d)));
                }
            }
        }
        (meta, list_files(&self.dir.join("cas")))
    }

    fn check_fingerprint_same(&self, before: &(BTreeMap<String, (u64, u64)>, BTreeMap<String, u64>), what: &str) -> R<()> {
        let after = self.disk_fingerprint();
        if after.0 != before.0 {
            fail!(format!("abort/{what}-changed-log-or-index"), "{what} changed the log/index files: {:?} -> {:?}", before.0.keys().collect::<Vec<_>>(), after.0.keys().collect::<Vec<_>>());
        }
        if after.1 != before.1 {
            fail!(format!("abort/{what}-changed-cas"), "{what} changed the CAS directory: {} -> {} files", before.1.len(), after.1.len());
        }
        Ok(())
    }

    fn observable(&self) -> Obs {
        let cas = self.cas();
        let mut keys = Vec::new();
        let pool = self.pool.clone();
        for k in &pool {
            let got = cas.get(k);
            let sz = cas.get_size(k);
            keys.push(format!(
                "{:?}={}",
                short_key(k),
                match (got, sz) {
                    (Ok(None), Ok(None)) => "absent".to_string(),
                    (Ok(Some(b)), Ok(Some(s))) => format!("{}:{}:{}", hexs(&b3(&b)[..8]), b.len(), s),
                    (a, b) => format!("ERR({:?},{:?})", a.map(|x| x.map(|y| y.len())), b),
                }
            ));
        }
        let g = cas.read_index_state();
        let mut blobs: Vec<String> = g.known_blobs().map(|(h, c)| format!("{}x{}", &h.to_hex()[..12], c)).collect();
        blobs.sort();
        let items: Vec<String> = g.iter().map(|(k, i)| format!("{:?}:{}:{}", short_key(k), &i.blob_hash.to_hex()[..12], i.blob_size)).collect();
        let st = g.stats();
        Obs { keys, blobs, items, unique: st.cas.unique_blobs, total: st.cas.total_bytes }
    }

    fn model_observable(&self) -> Obs {
        let mut keys = Vec::new();
        for k in &self.pool {
            keys.push(format!(
                "{:?}={}",
                short_key(k),
                match self.model.get(k) {
                    None => "absent".to_string(),
                    Some(b) => format!("{}:{}:{}", hexs(&b3(b)[..8]), b.len(), b.len()),
                }
            ));
        }
        let rc = self.refcounts();
        let mut blobs: Vec<String> = rc.iter().map(|(h, (c, _))| format!("{}x{}", &hexs(h)[..12], c)).collect();
        blobs.sort();
        let items: Vec<String> = self.model.iter().map(|(k, v)| format!("{:?}:{}:{}", short_key(k), &hexs(&b3(v))[..12], v.len())).collect();
        Obs { keys, blobs, items, unique: rc.len() as u64, total: rc.values().map(|x| x.1).sum() }
    }

    fn check_ondisk(&mut self) -> R<()> {
        let d = match ondisk::read_disk(&self.dir) {
            Ok(d) => d,
            Err(e) => fail!("ondisk/malformed", "independent reader rejects the files at step {}: {e}", self.step_no),
        };
        if let Err(e) = d.check_versions(self.cfg.n) {
            fail!("ondisk/version-order-or-range", "at step {}: {e}", self.step_no);
        }
        let max_before = self.seen_versions.keys().next_back().copied().unwrap_or(0);
        let mut newly = Vec::new();
        for r in d.all_records() {
            let ph = b3(&r.payload);
            match self.seen_versions.get(&r.version) {
                Some(old) if *old != ph => fail!("ondisk/version-reused", "version {} reappears with a different payload at step {}", r.version, self.step_no),
                Some(_) => {}
                None => newly.push((r.version, ph)),
            }
        }
        for (v, ph) in newly {
            if v <= max_before {
                fail!("ondisk/version-reused", "new record with version {v} although version {max_before} was already on disk (step {})", self.step_no);
            }
            self.seen_versions.insert(v, ph);
        }
        let st = d.decode_state();
        let exp: ondisk::State = self.model.iter().map(|(k, v)| (k.to_key_bytes_owned(), (b3(v), v.len() as u64))).collect();
        if st != exp {
            fail!("ondisk/decoded-state-differs", "snapshot+log decode to {} keys, acknowledged history has {} (snapshot v{}, max v{}) at step {}", st.len(), exp.len(), d.snap_version(), d.max_version(), self.step_no);
        }
        if d.segs.len() >= 2 {
            self.ev.ev("ondisk_multi_segment");
        }
        if d.snap.is_some() && d.all_records().any(|r| r.version > d.snap_version()) {
            self.ev.ev("ondisk_snapshot_with_tail");
        }
        self.ev.ev("ondisk_checked");
        Ok(())
    }

    fn after_step(&mut self) -> R<()> {
        if self.lenses.reads {
            self.check_reads()?;
        }
        if self.lenses.listing {
            self.check_listing()?;
        }
        if self.lenses.stats {
            self.check_stats()?;
        }
        if self.lenses.cashash {
            self.check_cashash()?;
        }
        if self.lenses.ondisk {
            self.check_ondisk()?;
        }
        Ok(())
    }
}

#[derive(PartialEq, Eq, Debug, Clone)]
pub struct Obs {
    keys: Vec<String>,
    blobs: Vec<String>,
    items: Vec<String>,
    unique: u64,
    total: u64,
}

fn brief(o: &Obs) -> String {
    format!("keys={:?} blobs={:?} unique={} total={}", o.keys, o.blobs, o.unique, o.total)
}

fn short_key<K: std::fmt::Debug>(k: &K) -> String {
    let s = format!("{k:?}");
    if s.len() > 24 {
        format!("{}..#{}", &s.chars().take(12).collect::<String>(), s.len())
    } else {
        s
    }
}

pub fn run_seq<K: HKey>(case: &SeqCase, lenses: Lenses) -> R<SeqOut> {
    let scratch = Scratch::new("seq");
    let dir = scratch.db();
    let mut s = Sess::<K> {
        txs: (0..3).map(|_| None).collect(),
        readers: (0..2).map(|_| None).collect(),
        cas: None,
        dir,
        cfg: case.cfg.clone(),
        asyn: case.cfg.asyn,
        pool: K::pool(),
        model: BTreeMap::new(),
        lenses,
        ev: Events::default(),
        v: 0,
        muts_since_reopen: 0,
        last_was_checkpoint: false,
        ref_hist: HashMap::new(),
        ever_live: BTreeSet::new(),
        seen_versions: BTreeMap::new(),
        step_no: 0,
        aborted_keys: BTreeSet::new(),
        aborts_since_reopen: 0,
    };
    s.open()?;
    s.after_step()?;
    let mut steps_run = 0;
    for (i, st) in case.steps.iter().enumerate() {
        s.step_no = i;
        if !s.step(st)? {
            return Ok(SeqOut { ev: s.ev.clone(), discarded: true, steps_run });
        }
        steps_run += 1;
        s.note_refcounts();
        s.after_step()?;
    }
    // quiescent end: close transactions, final checks
    for t in s.txs.iter_mut() {
        *t = None;
    }
    s.step_no = case.steps.len();
    s.after_step()?;
    if lenses.listing {
        let st = list_files(&s.dir.join("staging")).len();
        if st != 0 {
            fail!("listing/staging-leftover", "staging/ holds {st} files at quiescence (end of history)");
        }
    }
    if lenses.cashash || lenses.reads {
        // drain remaining long-lived readers
        for r in 0..s.readers.len() {
            s.step(&Step::DrainReader { r: r as u8 })?;
        }
    }
    s.finish_events();
    s.cas = None;
    Ok(SeqOut { ev: s.ev.clone(), discarded: false, steps_run })
}

pub fn run_seq_dyn(case: &SeqCase, lenses: Lenses) -> R<SeqOut> {
    crate::with_key_type!(case.cfg.kt.as_str(), run_seq(case, lenses))
}

#[allow(dead_code)]
pub fn db_path_exists(p: &Path) -> bool {
    p.exists()
}
