//! Linearizability checker for small histories over a map key -> content id.
//!
//! Each call is a sequence of 1 or 2 atomic points that must be placed between the call's
//! invocation and response; `remove` = presence read + delete-if-present, `remove_range` = scan
//! (defines the count) + delete of the scanned keys that are still present (the documented
//! "not strictly atomic" behaviour). Search: DFS over admissible next points with memoisation.

use std::collections::{BTreeMap, BTreeSet, HashSet};

pub type Key = u8;
pub type Val = u8;

#[derive(Clone, Debug, PartialEq, Eq)]
pub enum Kind {
    /// read of key observing `obs` (None = absent)
    Read { k: Key, obs: Option<Val> },
    Put { k: Key, v: Val },
    /// remove returning `present`
    Remove { k: Key, present: bool },
    /// remove_range over `keys` (the keys of the key space inside the range) returning `count`
    RemoveRange { keys: Vec<Key>, count: usize },
}

#[derive(Clone, Debug)]
pub struct Call {
    pub inv: u64,
    pub res: u64,
    pub kind: Kind,
    pub label: String,
}

type State = BTreeMap<Key, Val>;

#[derive(Clone, PartialEq, Eq, Hash)]
struct Memo {
    progress: Vec<u8>,
    state: Vec<(Key, Val)>,
    pending: Vec<(usize, Vec<Key>)>,
}

fn npoints(k: &Kind) -> u8 {
    match k {
        Kind::Read { .. } | Kind::Put { .. } => 1,
        Kind::Remove { present, .. } => {
            if *present {
                2
            } else {
                1
            }
        }
        Kind::RemoveRange { count, .. } => {
            if *count > 0 {
                2
            } else {
                1
            }
        }
    }
}

pub fn check(init: &State, calls: &[Call]) -> Result<(), String> {
    let n = calls.len();
    let mut progress = vec![0u8; n];
    let mut state = init.clone();
    let mut pending: BTreeMap<usize, Vec<Key>> = BTreeMap::new();
    let mut seen: HashSet<Memo> = HashSet::new();
    let mut order: Vec<String> = Vec::new();
    let mut best: Vec<String> = Vec::new();
    if dfs(calls, &mut progress, &mut state, &mut pending, &mut seen, &mut order, &mut best) {
        Ok(())
    } else {
        Err(format!("no linearization; longest consistent prefix: [{}]", best.join(" ; ")))
    }
}

fn dfs(
    calls: &[Call],
    progress: &mut Vec<u8>,
    state: &mut State,
    pending: &mut BTreeMap<usize, Vec<Key>>,
    seen: &mut HashSet<Memo>,
    order: &mut Vec<String>,
    best: &mut Vec<String>,
) -> bool {
    if calls.iter().enumerate().all(|(i, c)| progress[i] == npoints(&c.kind)) {
        return true;
    }
    let memo = Memo { progress: progress.clone(), state: state.iter().map(|(k, v)| (*k, *v)).collect(), pending: pending.iter().map(|(k, v)| (*k, v.clone())).collect() };
    if !seen.insert(memo) {
        return false;
    }
    if order.len() > best.len() {
        *best = order.clone();
    }
    // earliest response among calls with unplaced points
    let min_res = calls.iter().enumerate().filter(|(i, c)| progress[*i] < npoints(&c.kind)).map(|(_, c)| c.res).min().unwrap_or(u64::MAX);
    for i in 0..calls.len() {
        let c = &calls[i];
        if progress[i] >= npoints(&c.kind) {
            continue;
        }
        // a call that starts after another unfinished call has responded cannot go first
        if c.inv > min_res {
            continue;
        }
        let p = progress[i];
        // try to place point p of call i
        let mut undo_state: Option<State> = None;
        let mut undo_pending: Option<Option<Vec<Key>>> = None;
        let ok = match (&c.kind, p) {
            (Kind::Read { k, obs }, 0) => state.get(k).copied() == *obs,
            (Kind::Put { k, v }, 0) => {
                undo_state = Some(state.clone());
                state.insert(*k, *v);
                true
            }
            (Kind::Remove { k, present }, 0) => state.contains_key(k) == *present,
            (Kind::Remove { k, .. }, 1) => {
                undo_state = Some(state.clone());
                state.remove(k);
                true
            }
            (Kind::RemoveRange { keys, count }, 0) => {
                let s: Vec<Key> = keys.iter().filter(|k| state.contains_key(k)).copied().collect();
                if s.len() == *count {
                    if *count > 0 {
                        undo_pending = Some(pending.insert(i, s));
                    }
                    true
                } else {
                    false
                }
            }
            (Kind::RemoveRange { .. }, 1) => {
                undo_state = Some(state.clone());
                let s = pending.get(&i).cloned().unwrap_or_default();
                undo_pending = Some(pending.remove(&i));
                for k in s {
                    state.remove(&k);
                }
                true
            }
            _ => false,
        };
        if ok {
            progress[i] += 1;
            order.push(format!("{}#{}", c.label, p));
            if dfs(calls, progress, state, pending, seen, order, best) {
                return true;
            }
            order.pop();
            progress[i] -= 1;
        }
        if let Some(s) = undo_state {
            *state = s;
        }
        if let Some(pv) = undo_pending {
            match (&c.kind, p) {
                (Kind::RemoveRange { .. }, 0) => {
                    // we inserted: restore previous
                    match pv {
                        Some(old) => {
                            pending.insert(i, old);
                        }
                        None => {
                            pending.remove(&i);
                        }
                    }
                }
                (Kind::RemoveRange { .. }, 1) => {
                    if let Some(old) = pv {
                        pending.insert(i, old);
                    }
                }
                _ => {}
            }
        }
    }
    false
}

#[allow(dead_code)]
pub fn keys_of(calls: &[Call]) -> BTreeSet<Key> {
    let mut s = BTreeSet::new();
    for c in calls {
        match &c.kind {
            Kind::Read { k, .. } | Kind::Put { k, .. } | Kind::Remove { k, .. } => {
                s.insert(*k);
            }
            Kind::RemoveRange { keys, .. } => s.extend(keys.iter().copied()),
        }
    }
    s
}
