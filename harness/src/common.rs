//! Shared basics: key types and pools, content pool, scratch directories, directory walking.

use std::collections::BTreeMap;
use std::fmt::Debug;
use std::hash::Hash;
use std::path::{Path, PathBuf};
use std::sync::atomic::{AtomicU64, Ordering};
use std::sync::{Arc, OnceLock};

use cassadilia::KeyBytes;

pub type Bytes = Arc<Vec<u8>>;

// ---------------------------------------------------------------------------------------------
// key types

pub trait HKey: KeyBytes + Clone + Eq + Ord + Hash + Debug + Send + Sync + 'static {
    const NAME: &'static str;
    /// Pool of keys, in *ascending Ord order*, no duplicates.
    fn pool() -> Vec<Self>;
}

fn sorted<K: Ord>(mut v: Vec<K>) -> Vec<K> {
    v.sort();
    v.dedup();
    v
}

impl HKey for String {
    const NAME: &'static str = "String";
    fn pool() -> Vec<Self> {
        sorted(vec![
            String::new(),
            "a".into(),
            "ab".into(),
            "b".into(),
            "\u{e9}\u{2211}z".into(),
            "k".repeat(300),
            "L".repeat(9000),
        ])
    }
}
impl HKey for Vec<u8> {
    const NAME: &'static str = "VecU8";
    fn pool() -> Vec<Self> {
        sorted(vec![
            vec![],
            vec![0],
            vec![0, 0],
            vec![0xff, 0xfe],
            b"a".to_vec(),
            vec![0x80; 300],
            vec![7; 9100],
        ])
    }
}
impl HKey for [u8; 3] {
    const NAME: &'static str = "Arr3";
    fn pool() -> Vec<Self> {
        sorted(vec![[0, 0, 0], [0, 0, 1], [0, 1, 0], [1, 0, 0], [0xff, 0xff, 0xff], [0x7f, 0x80, 0]])
    }
}
impl HKey for u64 {
    const NAME: &'static str = "U64";
    fn pool() -> Vec<Self> {
        sorted(vec![0, 1, 255, 256, 1 << 32, u64::MAX - 1, u64::MAX])
    }
}
impl HKey for i32 {
    const NAME: &'static str = "I32";
    fn pool() -> Vec<Self> {
        sorted(vec![i32::MIN, -256, -1, 0, 1, 255, i32::MAX])
    }
}
impl HKey for u8 {
    const NAME: &'static str = "U8";
    fn pool() -> Vec<Self> {
        sorted(vec![0, 1, 2, 127, 128, 255])
    }
}
impl HKey for i128 {
    const NAME: &'static str = "I128";
    fn pool() -> Vec<Self> {
        sorted(vec![i128::MIN, -1, 0, 1, 1 << 64, i128::MAX])
    }
}

pub const KEY_TYPES: [&str; 7] = ["String", "VecU8", "Arr3", "U64", "I32", "U8", "I128"];

/// Dispatch a generic function over the key type name.
#[macro_export]
macro_rules! with_key_type {
    ($name:expr, $f:ident ( $($arg:expr),* )) => {
        match $name {
            "String" => $f::<String>($($arg),*),
            "VecU8" => $f::<Vec<u8>>($($arg),*),
            "Arr3" => $f::<[u8; 3]>($($arg),*),
            "U64" => $f::<u64>($($arg),*),
            "I32" => $f::<i32>($($arg),*),
            "U8" => $f::<u8>($($arg),*),
            "I128" => $f::<i128>($($arg),*),
            other => panic!("harness: unknown key type {other}"),
        }
    };
}

/// Monotone index mapping (keeps shrinking effective): i in 0..=255 -> 0..len
pub fn pick(i: u8, len: usize) -> usize {
    if len == 0 {
        return 0;
    }
    (i as usize * len) >> 8
}

// ---------------------------------------------------------------------------------------------
// contents

pub const POOL_LENS: [usize; 10] = [0, 1, 5, 4096, 8191, 8192, 8193, 20_011, 70_001, 300_001];

fn fill(id: u64, len: usize) -> Vec<u8> {
    let mut x = 0x9E37_79B9_7F4A_7C15u64 ^ (id.wrapping_mul(0xD6E8_FEB8_6659_FD93)).wrapping_add(len as u64);
    let mut v = Vec::with_capacity(len);
    while v.len() < len {
        x ^= x << 13;
        x ^= x >> 7;
        x ^= x << 17;
        let b = x.to_le_bytes();
        let take = std::cmp::min(8, len - v.len());
        v.extend_from_slice(&b[..take]);
    }
    v
}

pub fn pool_content(id: usize) -> Bytes {
    static POOL: OnceLock<Vec<Bytes>> = OnceLock::new();
    let pool = POOL.get_or_init(|| {
        POOL_LENS.iter().enumerate().map(|(i, &l)| Arc::new(fill(i as u64 + 1, l))).collect()
    });
    pool[id % pool.len()].clone()
}

/// Deterministic content of arbitrary length (used by C17/C18).
pub fn gen_content(id: u64, len: usize) -> Vec<u8> {
    fill(id.wrapping_add(1000), len)
}

#[derive(Clone, Debug, PartialEq, Eq, serde::Serialize, serde::Deserialize)]
pub enum C {
    /// pool content index
    P(u8),
    /// literal bytes
    R(Vec<u8>),
}

impl C {
    pub fn bytes(&self) -> Bytes {
        match self {
            C::P(i) => pool_content(*i as usize),
            C::R(v) => Arc::new(v.clone()),
        }
    }
}

pub fn b3(data: &[u8]) -> [u8; 32] {
    *blake3::hash(data).as_bytes()
}

pub fn hexs(h: &[u8]) -> String {
    hex::encode(h)
}

/// canonical relative path of a hash, computed independently of the crate
pub fn rel_path_of(h: &[u8; 32]) -> String {
    let x = hex::encode(h);
    format!("{}/{}/{}", &x[0..2], &x[2..4], &x[4..])
}

pub fn fnv(data: &[u8]) -> u64 {
    let mut h = 0xcbf29ce484222325u64;
    for b in data {
        h ^= *b as u64;
        h = h.wrapping_mul(0x100000001b3);
    }
    h
}

pub fn hash_json<T: serde::Serialize>(v: &T) -> u64 {
    let s = serde_json::to_vec(v).unwrap_or_default();
    let h = blake3::hash(&s);
    u64::from_le_bytes(h.as_bytes()[..8].try_into().unwrap())
}

// ---------------------------------------------------------------------------------------------
// scratch

static SCRATCH_CTR: AtomicU64 = AtomicU64::new(0);

pub fn scratch_base() -> PathBuf {
    static BASE: OnceLock<PathBuf> = OnceLock::new();
    BASE.get_or_init(|| {
        let pid = std::process::id();
        let shm = Path::new("/dev/shm");
        let root = if shm.is_dir() && std::fs::create_dir_all(shm.join(format!("cassverif-{pid}"))).is_ok() {
            shm.join(format!("cassverif-{pid}"))
        } else {
            let p = PathBuf::from(format!("/verif/.scratch/cassverif-{pid}"));
            std::fs::create_dir_all(&p).expect("harness: cannot create scratch");
            p
        };
        root
    })
    .clone()
}

/// Remove scratch dirs of dead processes.
pub fn clean_stale_scratch() {
    for base in ["/dev/shm", "/verif/.scratch"] {
        let Ok(rd) = std::fs::read_dir(base) else { continue };
        for e in rd.flatten() {
            let name = e.file_name().to_string_lossy().to_string();
            if let Some(pid) = name.strip_prefix("cassverif-").and_then(|p| p.parse::<i32>().ok()) {
                let alive = unsafe { libc::kill(pid, 0) } == 0;
                if !alive {
                    let _ = std::fs::remove_dir_all(e.path());
                }
            }
        }
    }
}

pub fn remove_own_scratch() {
    let _ = std::fs::remove_dir_all(scratch_base());
}

pub struct Scratch {
    pub path: PathBuf,
}
impl Scratch {
    pub fn new(tag: &str) -> Self {
        let n = SCRATCH_CTR.fetch_add(1, Ordering::Relaxed);
        let path = scratch_base().join(format!("{tag}-{n}"));
        let _ = std::fs::remove_dir_all(&path);
        std::fs::create_dir_all(&path).expect("harness: scratch mkdir");
        Scratch { path }
    }
    pub fn db(&self) -> PathBuf {
        self.path.join("db")
    }
}
impl Drop for Scratch {
    fn drop(&mut self) {
        let _ = std::fs::remove_dir_all(&self.path);
    }
}

// ---------------------------------------------------------------------------------------------
// directory walking

/// All regular files below `root`, as relative '/'-joined paths -> length. Directories ignored.
pub fn list_files(root: &Path) -> BTreeMap<String, u64> {
    let mut out = BTreeMap::new();
    fn rec(base: &Path, dir: &Path, out: &mut BTreeMap<String, u64>) {
        let Ok(rd) = std::fs::read_dir(dir) else { return };
        for e in rd.flatten() {
            let p = e.path();
            let Ok(md) = std::fs::symlink_metadata(&p) else { continue };
            if md.is_dir() {
                rec(base, &p, out);
            } else {
                let rel = p.strip_prefix(base).unwrap().to_string_lossy().to_string();
                out.insert(rel, md.len());
            }
        }
    }
    rec(root, root, &mut out);
    out
}

/// Full snapshot of a directory tree: relative path -> bytes (regular files) ; dirs as "path/" -> empty
pub fn snapshot_tree(root: &Path) -> BTreeMap<String, Vec<u8>> {
    let mut out = BTreeMap::new();
    fn rec(base: &Path, dir: &Path, out: &mut BTreeMap<String, Vec<u8>>) {
        let Ok(rd) = std::fs::read_dir(dir) else { return };
        for e in rd.flatten() {
            let p = e.path();
            let Ok(md) = std::fs::symlink_metadata(&p) else { continue };
            let rel = p.strip_prefix(base).unwrap().to_string_lossy().to_string();
            if md.is_dir() {
                out.insert(format!("{rel}/"), Vec::new());
                rec(base, &p, out);
            } else {
                out.insert(rel, std::fs::read(&p).unwrap_or_default());
            }
        }
    }
    rec(root, root, &mut out);
    out
}

pub fn copy_tree(src: &Path, dst: &Path) {
    std::fs::create_dir_all(dst).expect("harness: copy_tree mkdir");
    let Ok(rd) = std::fs::read_dir(src) else { return };
    for e in rd.flatten() {
        let p = e.path();
        let to = dst.join(e.file_name());
        let Ok(md) = std::fs::symlink_metadata(&p) else { continue };
        if md.is_dir() {
            copy_tree(&p, &to);
        } else {
            std::fs::copy(&p, &to).expect("harness: copy_tree copy");
        }
    }
}

pub fn is_canonical_blob_rel(rel: &str) -> Option<[u8; 32]> {
    let parts: Vec<&str> = rel.split('/').collect();
    if parts.len() != 3 || parts[0].len() != 2 || parts[1].len() != 2 || parts[2].len() != 60 {
        return None;
    }
    let all = format!("{}{}{}", parts[0], parts[1], parts[2]);
    if !all.bytes().all(|b| b.is_ascii_digit() || (b'a'..=b'f').contains(&b)) {
        return None;
    }
    let mut out = [0u8; 32];
    hex::decode_to_slice(&all, &mut out).ok()?;
    Some(out)
}
