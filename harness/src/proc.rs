//! E2 — worker sub-command (runs under the LD_PRELOAD shim) and the helpers that spawn it.

use std::ops::Bound;
use std::panic::{catch_unwind, AssertUnwindSafe};
use std::path::{Path, PathBuf};
use std::time::{Duration, Instant};

use cassadilia::{Cas, LibError};
use serde::{Deserialize, Serialize};

use crate::common::*;
use crate::fsmodel::{parse_log, Event};
use crate::seq::{normalise_bounds, Cfg, Step, B};

#[derive(Clone, Debug, Serialize, Deserialize)]
pub struct Script {
    pub cfg: Cfg,
    pub asyn: bool,
    /// use open_with_recover and delete_orphans() right after opening
    pub cleanup: bool,
    pub ops: Vec<Step>,
    /// record a full read of every pool key before closing
    pub dump: bool,
    /// pass pre_create_cas_dirs = true to every open of this script
    #[serde(default)]
    pub pre_create: bool,
}

#[derive(Clone, Debug, Serialize, Deserialize, Default)]
pub struct OpResult {
    pub i: usize,
    /// ok | err | panic
    pub status: String,
    pub err: Option<String>,
    /// return value of remove (0/1) / remove_range (count)
    pub ret: Option<i64>,
    /// observation of a read op: absent | <hash16>:<len> | err:<kind>
    pub obs: Option<String>,
}

#[derive(Clone, Debug, Serialize, Deserialize, Default)]
pub struct WorkerOut {
    /// "" (not reached) | ok | err:<kind>
    pub open: String,
    pub open_detail: String,
    pub ops: Vec<OpResult>,
    pub dump: Option<Vec<String>>,
    pub closed: bool,
}

pub fn mark(text: &str) {
    unsafe {
        libc::write(-7777, text.as_ptr() as *const libc::c_void, text.len());
    }
}

/// Debug-path of an error: the chain of variant names, e.g. Index.Wal.ReplayIo
pub fn err_path<E: std::fmt::Debug>(e: &E) -> String {
    let s = format!("{e:?}");
    let mut out: Vec<String> = Vec::new();
    for tok in s.split(|c: char| !(c.is_alphanumeric() || c == '_')) {
        if tok.is_empty() {
            continue;
        }
        let first = tok.chars().next().unwrap();
        if first.is_uppercase() {
            out.push(tok.to_string());
            if out.len() >= 4 {
                break;
            }
        } else {
            break;
        }
    }
    if out.is_empty() {
        "Err".into()
    } else {
        out.join(".")
    }
}

fn obs_of(r: Result<Option<bytes::Bytes>, LibError>) -> String {
    match r {
        Ok(None) => "absent".into(),
        Ok(Some(b)) => format!("{}:{}", &hexs(&b3(&b))[..16], b.len()),
        Err(e) => format!("err:{}", err_path(&e)),
    }
}

pub fn obs_of_bytes(b: Option<&[u8]>) -> String {
    match b {
        None => "absent".into(),
        Some(b) => format!("{}:{}", &hexs(&b3(b))[..16], b.len()),
    }
}

fn cfg_of(script: &Script, asyn: bool) -> cassadilia::Config {
    let mut c = script.cfg.config(asyn);
    c.pre_create_cas_dirs = script.pre_create;
    c
}

fn write_out(path: &Path, out: &WorkerOut) {
    let tmp = path.with_extension("tmp");
    std::fs::write(&tmp, serde_json::to_vec(out).unwrap()).expect("harness: worker results write");
    std::fs::rename(&tmp, path).expect("harness: worker results rename");
}

fn worker_generic<K: HKey>(root: &Path, script: &Script, results: &Path) -> i32 {
    let mut out = WorkerOut::default();
    let pool = K::pool();
    let key = |k: u8| pool[(k as usize).min(pool.len() - 1)].clone();
    let mut asyn = script.asyn;
    mark("OPEN");
    let opened = catch_unwind(AssertUnwindSafe(|| {
        if script.cleanup {
            Cas::<K>::open_with_recover(root, cfg_of(script, asyn)).map(|(c, st)| {
                if let Some(st) = st {
                    mark("CLEANUP");
                    let _ = st.delete_orphans();
                    mark("CLEANED");
                }
                c
            })
        } else {
            Cas::<K>::open(root, cfg_of(script, asyn))
        }
    }));
    let mut cas: Option<Cas<K>> = match opened {
        Ok(Ok(c)) => Some(c),
        Ok(Err(e)) => {
            out.open = format!("err:{}", err_path(&e));
            out.open_detail = format!("{e:?}");
            mark("OPENERR");
            write_out(results, &out);
            return 3;
        }
        Err(_) => {
            out.open = "panic".into();
            mark("OPENPANIC");
            write_out(results, &out);
            return 77;
        }
    };
    out.open = "ok".into();
    mark("OPENED");
    write_out(results, &out);
    mark("ARM");
    let mut panicked = false;
    for (i, op) in script.ops.iter().enumerate() {
        mark(&format!("B {i}"));
        let mut res = OpResult { i, ..Default::default() };
        let r = catch_unwind(AssertUnwindSafe(|| -> Result<(Option<i64>, Option<String>), LibError> {
            match op {
                Step::Put { k, c, cuts } => {
                    let content = c.bytes();
                    let cas = cas.as_ref().expect("harness: no handle");
                    let mut tx = cas.put(key(*k))?;
                    let mut off = 0usize;
                    for cut in cuts {
                        let l = (*cut as usize).min(content.len() - off);
                        tx.write(&content[off..off + l]).map_err(tx_err)?;
                        off += l;
                    }
                    if off < content.len() {
                        tx.write(&content[off..]).map_err(tx_err)?;
                    }
                    tx.finish()?;
                    Ok((None, None))
                }
                Step::Remove { k } => Ok((Some(cas.as_ref().expect("harness: no handle").remove(&key(*k))? as i64), None)),
                Step::RemoveRange { lo, hi } => {
                    let (lo, hi) = normalise_bounds(*lo, *hi, pool.len());
                    let b = |x: B| match x {
                        B::U => Bound::Unbounded,
                        B::I(i) => Bound::Included(key(i)),
                        B::E(i) => Bound::Excluded(key(i)),
                    };
                    Ok((Some(cas.as_ref().expect("harness: no handle").remove_range((b(lo), b(hi)))? as i64), None))
                }
                Step::Checkpoint => {
                    cas.as_ref().expect("harness: no handle").checkpoint()?;
                    Ok((None, None))
                }
                Step::Reopen { flip } => {
                    if *flip {
                        asyn = !asyn;
                    }
                    // close, then open again in this process
                    cas = None;
                    match Cas::<K>::open(root, cfg_of(script, asyn)) {
                        Ok(c) => {
                            cas = Some(c);
                            Ok((None, None))
                        }
                        Err(e) => {
                            mark("REOPENERR");
                            Err(e)
                        }
                    }
                }
                Step::GetRange { k, .. } => Ok((None, Some(obs_of(cas.as_ref().expect("harness: no handle").get(&key(*k)))))),
                Step::Bulk { n } => {
                    let cas = cas.as_ref().expect("harness: no handle");
                    let content = pool_content(1);
                    for i in 0..*n as u64 {
                        let Some(k) = K::from_key_bytes(&(100_000 + i).to_le_bytes()) else { break };
                        let mut tx = cas.put(k)?;
                        tx.write(&content).map_err(tx_err)?;
                        tx.finish()?;
                    }
                    Ok((None, None))
                }
                _ => Ok((None, None)),
            }
        }));
        let mut fatal = false;
        match r {
            Ok(Ok((ret, obs))) => {
                res.status = "ok".into();
                res.ret = ret;
                res.obs = obs;
            }
            Ok(Err(e)) => {
                res.status = "err".into();
                res.err = Some(format!("{} | {:?}", err_path(&e), e).chars().take(300).collect());
                if matches!(op, Step::Reopen { .. }) {
                    fatal = true;
                }
            }
            Err(_) => {
                res.status = "panic".into();
                let (m, l) = crate::engine::take_panic();
                res.err = Some(format!("{m} at {l}").chars().take(300).collect());
                panicked = true;
            }
        }
        mark(&format!("E {i} {}", res.status));
        out.ops.push(res);
        write_out(results, &out);
        if fatal {
            return 4;
        }
        if panicked {
            break;
        }
    }
    mark("DISARM");
    if script.dump && !panicked {
        let mut d = Vec::new();
        for k in &pool {
            d.push(obs_of(cas.as_ref().expect("harness: no handle").get(k)));
        }
        out.dump = Some(d);
        write_out(results, &out);
    }
    mark("CLOSE");
    drop(cas);
    mark("CLOSED");
    out.closed = true;
    write_out(results, &out);
    if panicked {
        77
    } else {
        0
    }
}

fn tx_err<E: std::fmt::Debug>(e: E) -> LibError {
    // Transaction::write errors are a separate type; wrap them as an Io error for reporting
    LibError::Io {
        operation: cassadilia::LibIoOperation::WriteStagingFile,
        path: None,
        source: std::io::Error::new(std::io::ErrorKind::Other, format!("{e:?}")),
    }
}

pub fn worker_main(args: &[String]) -> i32 {
    let mut root = None;
    let mut script = None;
    let mut results = None;
    let mut i = 0;
    while i < args.len() {
        match args[i].as_str() {
            "--root" => root = args.get(i + 1).cloned(),
            "--script" => script = args.get(i + 1).cloned(),
            "--results" => results = args.get(i + 1).cloned(),
            _ => {}
        }
        i += 2;
    }
    let root = PathBuf::from(root.expect("harness: worker --root"));
    let script: Script = serde_json::from_slice(&std::fs::read(script.expect("harness: worker --script")).expect("harness: read script")).expect("harness: parse script");
    let results = PathBuf::from(results.expect("harness: worker --results"));
    let kt = script.cfg.kt.clone();
    crate::with_key_type!(kt.as_str(), worker_generic(&root, &script, &results))
}

// ---------------------------------------------------------------------------------------------
// spawning

#[derive(Clone, Copy, Debug)]
pub enum ShimMode {
    Trace,
    CrashAt(u64),
    FailAt { k: u64, errno: i32 },
}

pub struct RunOut {
    pub code: Option<i32>,
    pub timed_out: bool,
    pub trace: Vec<Event>,
    pub out: WorkerOut,
    pub wall: Duration,
}

pub fn shim_path() -> PathBuf {
    let base = std::env::var("VERIF_DIR").unwrap_or_else(|_| "/verif".into());
    PathBuf::from(base).join("target/fsshim.so")
}

// ---- fork server: one long-lived single-threaded process per harness thread; each request is
// served by a forked child (no exec), which configures the shim through a CTL marker ----

#[derive(Serialize, Deserialize)]
struct Req {
    root: String,
    script: String,
    results: String,
    log: String,
    crash_at: i64,
    fail_at: i64,
    errno: i32,
    timeout_ms: u64,
}

pub fn forkserver_main() -> i32 {
    use std::io::{BufRead, Write};
    let stdin = std::io::stdin();
    let mut line = String::new();
    loop {
        line.clear();
        match stdin.lock().read_line(&mut line) {
            Ok(0) | Err(_) => return 0,
            Ok(_) => {}
        }
        let Ok(req) = serde_json::from_str::<Req>(line.trim()) else { return 5 };
        let pid = unsafe { libc::fork() };
        if pid < 0 {
            return 6;
        }
        if pid == 0 {
            mark(&format!("CTL {} {} {} {}\t{}", req.crash_at, req.fail_at, req.errno, req.root, req.log));
            let args = vec!["--root".to_string(), req.root.clone(), "--script".to_string(), req.script.clone(), "--results".to_string(), req.results.clone()];
            let code = worker_main(&args);
            unsafe { libc::_exit(code) };
        }
        let start = Instant::now();
        let mut status: libc::c_int = 0;
        let reply = loop {
            let r = unsafe { libc::waitpid(pid, &mut status, libc::WNOHANG) };
            if r == pid {
                if libc::WIFEXITED(status) {
                    break format!("exit {}", libc::WEXITSTATUS(status));
                }
                break format!("signal {}", libc::WTERMSIG(status));
            }
            if r < 0 {
                break "waiterr".to_string();
            }
            if start.elapsed() > Duration::from_millis(req.timeout_ms) {
                unsafe {
                    libc::kill(pid, libc::SIGKILL);
                    libc::waitpid(pid, &mut status, 0);
                }
                break "timeout".to_string();
            }
            std::thread::sleep(Duration::from_micros(if start.elapsed() < Duration::from_millis(20) { 100 } else { 1000 }));
        };
        let mut out = std::io::stdout().lock();
        if writeln!(out, "{reply}").is_err() || out.flush().is_err() {
            return 0;
        }
    }
}

struct Server {
    child: std::process::Child,
    stdin: std::process::ChildStdin,
    stdout: std::io::BufReader<std::process::ChildStdout>,
}
impl Drop for Server {
    fn drop(&mut self) {
        let _ = self.child.kill();
        let _ = self.child.wait();
    }
}
thread_local! {
    static SERVER: std::cell::RefCell<Option<Server>> = const { std::cell::RefCell::new(None) };
}

fn spawn_server() -> Server {
    let exe = std::env::current_exe().expect("harness: current_exe");
    let mut cmd = std::process::Command::new(exe);
    cmd.arg("forkserver");
    cmd.env("LD_PRELOAD", shim_path());
    cmd.env("RAYON_NUM_THREADS", "2");
    cmd.env_remove("VSHIM_ROOT").env_remove("VSHIM_LOG").env_remove("VSHIM_CRASH_AT").env_remove("VSHIM_FAIL_AT").env_remove("VSHIM_FAIL_ERRNO");
    cmd.stdin(std::process::Stdio::piped()).stdout(std::process::Stdio::piped()).stderr(std::process::Stdio::null());
    let mut child = cmd.spawn().expect("harness: cannot spawn fork server");
    let stdin = child.stdin.take().expect("harness: server stdin");
    let stdout = std::io::BufReader::new(child.stdout.take().expect("harness: server stdout"));
    Server { child, stdin, stdout }
}

/// Starts this thread's fork server now (instead of lazily at the first worker run).
pub fn ensure_server() {
    SERVER.with(|s| {
        let mut g = s.borrow_mut();
        if g.is_none() {
            *g = Some(spawn_server());
        }
    });
}

/// Runs the worker on `root`; `work` is a scratch directory for script/results/trace files.
pub fn run_worker(root: &Path, work: &Path, tag: &str, script: &Script, mode: ShimMode, timeout: Duration) -> RunOut {
    use std::io::{BufRead, Write};
    let sp = work.join(format!("{tag}.script.json"));
    let rp = work.join(format!("{tag}.results.json"));
    let lp = work.join(format!("{tag}.trace.log"));
    let _ = std::fs::remove_file(&rp);
    let _ = std::fs::remove_file(&lp);
    std::fs::write(&sp, serde_json::to_vec(script).unwrap()).expect("harness: write script");
    let (crash_at, fail_at, errno) = match mode {
        ShimMode::Trace => (-1, -1, 5),
        ShimMode::CrashAt(k) => (k as i64, -1, 5),
        ShimMode::FailAt { k, errno } => (-1, k as i64, errno),
    };
    let req = Req {
        root: root.to_string_lossy().to_string(),
        script: sp.to_string_lossy().to_string(),
        results: rp.to_string_lossy().to_string(),
        log: lp.to_string_lossy().to_string(),
        crash_at,
        fail_at,
        errno,
        timeout_ms: timeout.as_millis() as u64,
    };
    let start = Instant::now();
    let reply = SERVER.with(|s| {
        let mut g = s.borrow_mut();
        for attempt in 0..2 {
            if g.is_none() {
                *g = Some(spawn_server());
            }
            let srv = g.as_mut().unwrap();
            let line = serde_json::to_string(&req).unwrap();
            let mut reply = String::new();
            let ok = writeln!(srv.stdin, "{line}").is_ok() && srv.stdin.flush().is_ok() && matches!(srv.stdout.read_line(&mut reply), Ok(n) if n > 0);
            if ok {
                return reply.trim().to_string();
            }
            *g = None;
            if attempt == 1 {
                break;
            }
        }
        eprintln!("HARNESS-ERROR: fork server died");
        crate::common::remove_own_scratch();
        std::process::exit(2);
    });
    let (code, timed_out) = match reply.split_once(' ') {
        Some(("exit", c)) => (c.parse::<i32>().ok(), false),
        Some(("signal", _)) => (None, false),
        _ if reply == "timeout" => (None, true),
        _ => {
            eprintln!("HARNESS-ERROR: fork server replied {reply:?}");
            crate::common::remove_own_scratch();
            std::process::exit(2);
        }
    };
    let trace_text = std::fs::read_to_string(&lp).unwrap_or_default();
    let trace = match parse_log(&trace_text) {
        Ok(t) => t,
        Err(e) => {
            eprintln!("HARNESS-ERROR: cannot parse shim trace: {e}");
            crate::common::remove_own_scratch();
            std::process::exit(2);
        }
    };
    let out: WorkerOut = std::fs::read(&rp).ok().and_then(|b| serde_json::from_slice(&b).ok()).unwrap_or_default();
    RunOut { code, timed_out, trace, out, wall: start.elapsed() }
}

pub fn ensure_shim() {
    if !shim_path().exists() {
        eprintln!("HARNESS-ERROR: {} missing (run ./setup.sh)", shim_path().display());
        std::process::exit(2);
    }
}
