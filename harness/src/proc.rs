//! E2 — worker sub-command (runs under the LD_PRELOAD shim) and the helpers that spawn it.

use std::ops::Bound;
use std::panic::{catch_unwind, AssertUnwindSafe};
use std::path::{Path, PathBuf};
use std::time::{Duration, Instant};

use cassadilia::{Cas, LibError};
use serde::{Deserialize, Serialize};

use crate::common::*;
use crate::fsmodel::{parse_log, Event};
use crate::seq::{normalise_bounds, Cfg, Step, B};

#[derive(Clone, Debug, Serialize, Deserialize)]
pub struct Script {
    pub cfg: Cfg,
    pub asyn: bool,
    /// use open_with_recover and delete_orphans() right after opening
    pub cleanup: bool,
    pub ops: Vec<Step>,
    /// record a full read of every pool key before closing
    pub dump: bool,
}

#[derive(Clone, Debug, Serialize, Deserialize, Default)]
pub struct OpResult {
    pub i: usize,
    /// ok | err | panic
    pub status: String,
    pub err: Option<String>,
    /// return value of remove (0/1) / remove_range (count)
    pub ret: Option<i64>,
    /// observation of a read op: absent | <hash16>:<len> | err:<kind>
    pub obs: Option<String>,
}

#[derive(Clone, Debug, Serialize, Deserialize, Default)]
pub struct WorkerOut {
    /// "" (not reached) | ok | err:<kind>
    pub open: String,
    pub open_detail: String,
    pub ops: Vec<OpResult>,
    pub dump: Option<Vec<String>>,
    pub closed: bool,
}

pub fn mark(text: &str) {
    unsafe {
        libc::write(-7777, text.as_ptr() as *const libc::c_void, text.len());
    }
}

/// Debug-path of an error: the chain of variant names, e.g. Index.Wal.ReplayIo
pub fn err_path<E: std::fmt::Debug>(e: &E) -> String {
    let s = format!("{e:?}");
    let mut out: Vec<String> = Vec::new();
    for tok in s.split(|c: char| !(c.is_alphanumeric() || c == '_')) {
        if tok.is_empty() {
            continue;
        }
        let first = tok.chars().next().unwrap();
        if first.is_uppercase() {
            out.push(tok.to_string());
            if out.len() >= 4 {
                break;
            }
        } else {
            break;
        }
    }
    if out.is_empty() {
        "Err".into()
    } else {
        out.join(".")
    }
}

fn obs_of(r: Result<Option<bytes::Bytes>, LibError>) -> String {
    match r {
        Ok(None) => "absent".into(),
        Ok(Some(b)) => format!("{}:{}", &hexs(&b3(&b))[..16], b.len()),
        Err(e) => format!("err:{}", err_path(&e)),
    }
}

pub fn obs_of_bytes(b: Option<&[u8]>) -> String {
    match b {
        None => "absent".into(),
        Some(b) => format!("{}:{}", &hexs(&b3(b))[..16], b.len()),
    }
}

fn write_out(path: &Path, out: &WorkerOut) {
    let tmp = path.with_extension("tmp");
    std::fs::write(&tmp, serde_json::to_vec(out).unwrap()).expect("harness: worker results write");
    std::fs::rename(&tmp, path).expect("harness: worker results rename");
}

fn worker_generic<K: HKey>(root: &Path, script: &Script, results: &Path) -> i32 {
    let mut out = WorkerOut::default();
    let pool = K::pool();
    let key = |k: u8| pool[(k as usize).min(pool.len() - 1)].clone();
    let mut asyn = script.asyn;
    mark("OPEN");
    let opened = catch_unwind(AssertUnwindSafe(|| {
        if script.cleanup {
            Cas::<K>::open_with_recover(root, script.cfg.config(asyn)).map(|(c, st)| {
                if let Some(st) = st {
                    mark("CLEANUP");
                    let _ = st.delete_orphans();
                    mark("CLEANED");
                }
                c
            })
        } else {
            Cas::<K>::open(root, script.cfg.config(asyn))
        }
    }));
    let mut cas: Option<Cas<K>> = match opened {
        Ok(Ok(c)) => Some(c),
        Ok(Err(e)) => {
            out.open = format!("err:{}", err_path(&e));
            out.open_detail = format!("{e:?}");
            mark("OPENERR");
            write_out(results, &out);
            return 3;
        }
        Err(_) => {
            out.open = "panic".into();
            mark("OPENPANIC");
            write_out(results, &out);
            return 77;
        }
    };
    out.open = "ok".into();
    mark("OPENED");
    write_out(results, &out);
    mark("ARM");
    let mut panicked = false;
    for (i, op) in script.ops.iter().enumerate() {
        mark(&format!("B {i}"));
        let mut res = OpResult { i, ..Default::default() };
        let r = catch_unwind(AssertUnwindSafe(|| -> Result<(Option<i64>, Option<String>), LibError> {
            match op {
                Step::Put { k, c, cuts } => {
                    let content = c.bytes();
                    let cas = cas.as_ref().expect("harness: no handle");
                    let mut tx = cas.put(key(*k))?;
                    let mut off = 0usize;
                    for cut in cuts {
                        let l = (*cut as usize).min(content.len() - off);
                        tx.write(&content[off..off + l]).map_err(tx_err)?;
                        off += l;
                    }
                    if off < content.len() {
                        tx.write(&content[off..]).map_err(tx_err)?;
                    }
                    tx.finish()?;
                    Ok((None, None))
                }
                Step::Remove { k } => Ok((Some(cas.as_ref().expect("harness: no handle").remove(&key(*k))? as i64), None)),
                Step::RemoveRange { lo, hi } => {
                    let (lo, hi) = normalise_bounds(*lo, *hi, pool.len());
                    let b = |x: B| match x {
                        B::U => Bound::Unbounded,
                        B::I(i) => Bound::Included(key(i)),
                        B::E(i) => Bound::Excluded(key(i)),
                    };
                    Ok((Some(cas.as_ref().expect("harness: no handle").remove_range((b(lo), b(hi)))? as i64), None))
                }
                Step::Checkpoint => {
                    cas.as_ref().expect("harness: no handle").checkpoint()?;
                    Ok((None, None))
                }
                Step::Reopen { flip } => {
                    if *flip {
                        asyn = !asyn;
                    }
                    // close, then open again in this process
                    cas = None;
                    match Cas::<K>::open(root, script.cfg.config(asyn)) {
                        Ok(c) => {
                            cas = Some(c);
                            Ok((None, None))
                        }
                        Err(e) => {
                            mark("REOPENERR");
                            Err(e)
                        }
                    }
                }
                Step::GetRange { k, .. } => Ok((None, Some(obs_of(cas.as_ref().expect("harness: no handle").get(&key(*k)))))),
                _ => Ok((None, None)),
            }
        }));
        let mut fatal = false;
        match r {
            Ok(Ok((ret, obs))) => {
                res.status = "ok".into();
                res.ret = ret;
                res.obs = obs;
            }
            Ok(Err(e)) => {
                res.status = "err".into();
                res.err = Some(format!("{} | {:?}", err_path(&e), e).chars().take(300).collect());
                if matches!(op, Step::Reopen { .. }) {
                    fatal = true;
                }
            }
            Err(_) => {
                res.status = "panic".into();
                let (m, l) = crate::engine::take_panic();
                res.err = Some(format!("{m} at {l}").chars().take(300).collect());
                panicked = true;
            }
        }
        mark(&format!("E {i} {}", res.status));
        out.ops.push(res);
        write_out(results, &out);
        if fatal {
            return 4;
        }
        if panicked {
            break;
        }
    }
    mark("DISARM");
    if script.dump && !panicked {
        let mut d = Vec::new();
        for k in &pool {
            d.push(obs_of(cas.as_ref().expect("harness: no handle").get(k)));
        }
        out.dump = Some(d);
        write_out(results, &out);
    }
    mark("CLOSE");
    drop(cas);
    mark("CLOSED");
    out.closed = true;
    write_out(results, &out);
    if panicked {
        77
    } else {
        0
    }
}

fn tx_err<E: std::fmt::Debug>(e: E) -> LibError {
    // Transaction::write errors are a separate type; wrap them as an Io error for reporting
    LibError::Io {
        operation: cassadilia::LibIoOperation::WriteStagingFile,
        path: None,
        source: std::io::Error::new(std::io::ErrorKind::Other, format!("{e:?}")),
    }
}

pub fn worker_main(args: &[String]) -> i32 {
    let mut root = None;
    let mut script = None;
    let mut results = None;
    let mut i = 0;
    while i < args.len() {
        match args[i].as_str() {
            "--root" => root = args.get(i + 1).cloned(),
            "--script" => script = args.get(i + 1).cloned(),
            "--results" => results = args.get(i + 1).cloned(),
            _ => {}
        }
        i += 2;
    }
    let root = PathBuf::from(root.expect("harness: worker --root"));
    let script: Script = serde_json::from_slice(&std::fs::read(script.expect("harness: worker --script")).expect("harness: read script")).expect("harness: parse script");
    let results = PathBuf::from(results.expect("harness: worker --results"));
    let kt = script.cfg.kt.clone();
    crate::with_key_type!(kt.as_str(), worker_generic(&root, &script, &results))
}

// ---------------------------------------------------------------------------------------------
// spawning

#[derive(Clone, Copy, Debug)]
pub enum ShimMode {
    Trace,
    CrashAt(u64),
    FailAt { k: u64, errno: i32 },
}

pub struct RunOut {
    pub code: Option<i32>,
    pub timed_out: bool,
    pub trace: Vec<Event>,
    pub out: WorkerOut,
    pub wall: Duration,
}

pub fn shim_path() -> PathBuf {
    let base = std::env::var("VERIF_DIR").unwrap_or_else(|_| "/verif".into());
    PathBuf::from(base).join("target/fsshim.so")
}

/// Runs the worker on `root`; `work` is a scratch directory for script/results/trace files.
pub fn run_worker(root: &Path, work: &Path, tag: &str, script: &Script, mode: ShimMode, timeout: Duration) -> RunOut {
    let sp = work.join(format!("{tag}.script.json"));
    let rp = work.join(format!("{tag}.results.json"));
    let lp = work.join(format!("{tag}.trace.log"));
    let _ = std::fs::remove_file(&rp);
    let _ = std::fs::remove_file(&lp);
    std::fs::write(&sp, serde_json::to_vec(script).unwrap()).expect("harness: write script");
    let exe = std::env::current_exe().expect("harness: current_exe");
    let mut cmd = std::process::Command::new(exe);
    cmd.arg("worker").arg("--root").arg(root).arg("--script").arg(&sp).arg("--results").arg(&rp);
    cmd.env("LD_PRELOAD", shim_path());
    cmd.env("VSHIM_ROOT", root);
    cmd.env("VSHIM_LOG", &lp);
    cmd.env_remove("VSHIM_CRASH_AT").env_remove("VSHIM_FAIL_AT").env_remove("VSHIM_FAIL_ERRNO");
    match mode {
        ShimMode::Trace => {}
        ShimMode::CrashAt(k) => {
            cmd.env("VSHIM_CRASH_AT", k.to_string());
        }
        ShimMode::FailAt { k, errno } => {
            cmd.env("VSHIM_FAIL_AT", k.to_string());
            cmd.env("VSHIM_FAIL_ERRNO", errno.to_string());
        }
    }
    cmd.stdin(std::process::Stdio::null()).stdout(std::process::Stdio::null()).stderr(std::process::Stdio::null());
    let start = Instant::now();
    let mut child = cmd.spawn().expect("harness: cannot spawn worker");
    let mut timed_out = false;
    let code = loop {
        match child.try_wait().expect("harness: try_wait") {
            Some(st) => break st.code(),
            None => {
                if start.elapsed() > timeout {
                    let _ = child.kill();
                    let _ = child.wait();
                    timed_out = true;
                    break None;
                }
                std::thread::sleep(Duration::from_micros(500));
            }
        }
    };
    let trace_text = std::fs::read_to_string(&lp).unwrap_or_default();
    let trace = match parse_log(&trace_text) {
        Ok(t) => t,
        Err(e) => {
            eprintln!("HARNESS-ERROR: cannot parse shim trace: {e}");
            crate::common::remove_own_scratch();
            std::process::exit(2);
        }
    };
    let out: WorkerOut = std::fs::read(&rp).ok().and_then(|b| serde_json::from_slice(&b).ok()).unwrap_or_default();
    RunOut { code, timed_out, trace, out, wall: start.elapsed() }
}

pub fn ensure_shim() {
    if !shim_path().exists() {
        eprintln!("HARNESS-ERROR: {} missing (run ./setup.sh)", shim_path().display());
        std::process::exit(2);
    }
}
