//! E2 — replay of a shim trace onto an in-memory filesystem; produces kill and power-loss images.

use std::collections::{BTreeMap, BTreeSet, HashMap};
use std::path::Path;
use std::sync::Arc;

#[derive(Clone, Debug)]
pub enum Ev {
    Open { ret: i64, flags: u32, path: String },
    Write { fd: i32, ret: i64, off: Option<u64>, data: Vec<u8> },
    Sync { fd: i32, ret: i64 },
    Rename { ret: i64, old: String, new: String },
    Unlink { ret: i64, path: String },
    Mkdir { ret: i64, path: String },
    Rmdir { ret: i64, path: String },
    Trunc { fd: i32, ret: i64, len: u64 },
    Close { fd: i32 },
    Mark(String),
    Inject { k: u64, errno: i32 },
    Crash,
    Unmodelled(String),
}

#[derive(Clone, Debug)]
pub struct Event {
    pub seq: u64,
    pub mseq: u64,
    pub tid: u64,
    pub ev: Ev,
}

pub const O_CREAT: u32 = 0o100;
pub const O_EXCL: u32 = 0o200;
pub const O_TRUNC: u32 = 0o1000;
pub const O_APPEND: u32 = 0o2000;
pub const O_ACCMODE: u32 = 3;

fn unhex(s: &str) -> Result<Vec<u8>, String> {
    if s == "-" {
        return Ok(Vec::new());
    }
    hex::decode(s).map_err(|e| format!("bad hex in trace: {e}"))
}

pub fn parse_log(text: &str) -> Result<Vec<Event>, String> {
    let mut out = Vec::new();
    for line in text.lines() {
        if line.is_empty() {
            continue;
        }
        let mut it = line.splitn(5, ' ');
        let seq: u64 = it.next().ok_or("no seq")?.parse().map_err(|_| format!("bad seq: {line:.80}"))?;
        let mseq: u64 = it.next().ok_or("no mseq")?.parse().map_err(|_| "bad mseq")?;
        let tid: u64 = it.next().ok_or("no tid")?.parse().map_err(|_| "bad tid")?;
        let kind = it.next().ok_or("no kind")?;
        let rest = it.next().unwrap_or("");
        let num = |s: Option<&str>| -> Result<i64, String> { s.ok_or("missing field")?.parse::<i64>().map_err(|_| format!("bad number in: {line:.80}")) };
        let ev = match kind {
            "open" => {
                let mut f = rest.splitn(3, ' ');
                let ret = num(f.next())?;
                let flags = u32::from_str_radix(f.next().ok_or("flags")?, 16).map_err(|_| "bad flags")?;
                Ev::Open { ret, flags, path: f.next().unwrap_or("").to_string() }
            }
            "write" => {
                let mut f = rest.splitn(3, ' ');
                let fd = num(f.next())? as i32;
                let ret = num(f.next())?;
                Ev::Write { fd, ret, off: None, data: unhex(f.next().unwrap_or("-"))? }
            }
            "pwrite" => {
                let mut f = rest.splitn(4, ' ');
                let fd = num(f.next())? as i32;
                let ret = num(f.next())?;
                let off = num(f.next())? as u64;
                Ev::Write { fd, ret, off: Some(off), data: unhex(f.next().unwrap_or("-"))? }
            }
            "sync" => {
                let mut f = rest.splitn(3, ' ');
                let fd = num(f.next())? as i32;
                Ev::Sync { fd, ret: num(f.next())? }
            }
            "rename" => {
                let (r, paths) = rest.split_once(' ').ok_or("rename fields")?;
                let (a, b) = paths.split_once('\t').ok_or("rename paths")?;
                Ev::Rename { ret: r.parse().map_err(|_| "bad ret")?, old: a.to_string(), new: b.to_string() }
            }
            "unlink" | "mkdir" | "rmdir" => {
                let (r, p) = rest.split_once(' ').ok_or("path op fields")?;
                let ret: i64 = r.parse().map_err(|_| "bad ret")?;
                match kind {
                    "unlink" => Ev::Unlink { ret, path: p.to_string() },
                    "mkdir" => Ev::Mkdir { ret, path: p.to_string() },
                    _ => Ev::Rmdir { ret, path: p.to_string() },
                }
            }
            "trunc" => {
                let mut f = rest.splitn(3, ' ');
                let fd = num(f.next())? as i32;
                let ret = num(f.next())?;
                Ev::Trunc { fd, ret, len: num(f.next())? as u64 }
            }
            "close" => Ev::Close { fd: num(Some(rest))? as i32 },
            "mark" => Ev::Mark(rest.to_string()),
            "inject" => {
                let mut f = rest.splitn(2, ' ');
                let k = num(f.next())? as u64;
                Ev::Inject { k, errno: num(f.next())? as i32 }
            }
            "crash" => Ev::Crash,
            "unmodelled" => Ev::Unmodelled(rest.to_string()),
            other => return Err(format!("unknown trace record kind {other}")),
        };
        out.push(Event { seq, mseq, tid, ev });
    }
    Ok(out)
}

#[derive(Clone, Debug)]
pub struct Inode {
    pub data: Arc<Vec<u8>>,
    pub durable: Arc<Vec<u8>>,
}

#[derive(Clone, Debug)]
struct Fd {
    ino: usize,
    pos: u64,
    append: bool,
    writable: bool,
}

#[derive(Clone, Debug, Default)]
pub struct Fs {
    pub files: BTreeMap<String, usize>,
    pub dirs: BTreeSet<String>,
    pub inodes: Vec<Inode>,
    fds: HashMap<i32, Fd>,
    pub root: String,
}

impl Fs {
    pub fn from_dir(root: &Path) -> Fs {
        let mut fs = Fs { root: root.to_string_lossy().trim_end_matches('/').to_string(), ..Default::default() };
        for (rel, bytes) in crate::common::snapshot_tree(root) {
            if let Some(d) = rel.strip_suffix('/') {
                fs.dirs.insert(d.to_string());
            } else {
                let a = Arc::new(bytes);
                fs.inodes.push(Inode { data: a.clone(), durable: a });
                fs.files.insert(rel, fs.inodes.len() - 1);
            }
        }
        fs
    }

    fn rel(&self, p: &str) -> Option<String> {
        if p == self.root {
            return Some(String::new());
        }
        p.strip_prefix(&self.root).and_then(|r| r.strip_prefix('/')).map(|r| r.trim_end_matches('/').to_string())
    }

    fn parent_exists(&self, rel: &str) -> bool {
        match rel.rsplit_once('/') {
            None => true,
            Some((par, _)) => self.dirs.contains(par),
        }
    }

    /// Apply one traced event. Ok(true) if the visible filesystem (names or bytes) changed.
    pub fn apply(&mut self, e: &Event) -> Result<bool, String> {
        match &e.ev {
            Ev::Open { ret, flags, path } => {
                if *ret < 0 {
                    return Ok(false);
                }
                let Some(rel) = self.rel(path) else { return Err(format!("open outside root: {path}")) };
                if rel.is_empty() || self.dirs.contains(&rel) {
                    return Ok(false); // directory handle
                }
                let mut changed = false;
                let ino = match self.files.get(&rel) {
                    Some(i) => {
                        if flags & O_CREAT != 0 && flags & O_EXCL != 0 {
                            return Err(format!("model: O_EXCL open succeeded on existing {rel}"));
                        }
                        *i
                    }
                    None => {
                        if flags & O_CREAT == 0 {
                            return Err(format!("model: open without O_CREAT succeeded on missing {rel}"));
                        }
                        if !self.parent_exists(&rel) {
                            return Err(format!("model: create in missing directory {rel}"));
                        }
                        let em = Arc::new(Vec::new());
                        self.inodes.push(Inode { data: em.clone(), durable: em });
                        self.files.insert(rel.clone(), self.inodes.len() - 1);
                        changed = true;
                        self.inodes.len() - 1
                    }
                };
                if flags & O_TRUNC != 0 && !self.inodes[ino].data.is_empty() {
                    self.inodes[ino].data = Arc::new(Vec::new());
                    changed = true;
                }
                self.fds.insert(*ret as i32, Fd { ino, pos: 0, append: flags & O_APPEND != 0, writable: flags & O_ACCMODE != 0 });
                Ok(changed)
            }
            Ev::Write { fd, ret, off, data } => {
                if *ret <= 0 {
                    return Ok(false);
                }
                let Some(f) = self.fds.get_mut(fd) else { return Err(format!("model: write on unknown fd {fd}")) };
                if !f.writable {
                    return Err(format!("model: write succeeded on read-only fd {fd}"));
                }
                let ino = f.ino;
                let cur_len = self.inodes[ino].data.len() as u64;
                let at = match off {
                    Some(o) => *o,
                    None => {
                        if f.append {
                            cur_len
                        } else {
                            f.pos
                        }
                    }
                };
                if off.is_none() {
                    f.pos = at + data.len() as u64;
                }
                let mut v = (*self.inodes[ino].data).clone();
                let end = at as usize + data.len();
                if v.len() < end {
                    v.resize(end, 0);
                }
                v[at as usize..end].copy_from_slice(data);
                self.inodes[ino].data = Arc::new(v);
                Ok(true)
            }
            Ev::Sync { fd, ret } => {
                if *ret == 0 {
                    if let Some(f) = self.fds.get(fd) {
                        let ino = f.ino;
                        self.inodes[ino].durable = self.inodes[ino].data.clone();
                    }
                }
                Ok(false)
            }
            Ev::Rename { ret, old, new } => {
                if *ret != 0 {
                    return Ok(false);
                }
                match (self.rel(old), self.rel(new)) {
                    (Some(a), Some(b)) => {
                        if let Some(ino) = self.files.remove(&a) {
                            self.files.insert(b, ino);
                            Ok(true)
                        } else if self.dirs.contains(&a) {
                            Err(format!("model: directory rename not modelled: {a}"))
                        } else {
                            Err(format!("model: rename of unknown file {a}"))
                        }
                    }
                    (Some(a), None) => {
                        // moved out of the root (quarantine): disappears
                        if self.files.remove(&a).is_some() {
                            Ok(true)
                        } else {
                            Err(format!("model: rename-out of unknown file {a}"))
                        }
                    }
                    (None, Some(b)) => Err(format!("model: rename into root from outside: {b}")),
                    (None, None) => Ok(false),
                }
            }
            Ev::Unlink { ret, path } => {
                if *ret != 0 {
                    return Ok(false);
                }
                let Some(rel) = self.rel(path) else { return Ok(false) };
                if self.files.remove(&rel).is_some() {
                    Ok(true)
                } else {
                    Err(format!("model: unlink succeeded on unknown file {rel}"))
                }
            }
            Ev::Mkdir { ret, path } => {
                if *ret != 0 {
                    return Ok(false);
                }
                let Some(rel) = self.rel(path) else { return Ok(false) };
                if rel.is_empty() {
                    return Ok(false);
                }
                Ok(self.dirs.insert(rel))
            }
            Ev::Rmdir { ret, path } => {
                if *ret != 0 {
                    return Ok(false);
                }
                let Some(rel) = self.rel(path) else { return Ok(false) };
                Ok(self.dirs.remove(&rel))
            }
            Ev::Trunc { fd, ret, len } => {
                if *ret != 0 {
                    return Ok(false);
                }
                let Some(f) = self.fds.get(fd) else { return Err(format!("model: ftruncate on unknown fd {fd}")) };
                let ino = f.ino;
                let mut v = (*self.inodes[ino].data).clone();
                v.resize(*len as usize, 0);
                self.inodes[ino].data = Arc::new(v);
                Ok(true)
            }
            Ev::Close { fd } => {
                self.fds.remove(fd);
                Ok(false)
            }
            Ev::Mark(_) | Ev::Inject { .. } | Ev::Crash => Ok(false),
            Ev::Unmodelled(w) => Err(format!("unmodelled call in trace: {w}")),
        }
    }

    /// Names of files whose current bytes are not covered by a sync.
    pub fn unsynced(&self) -> Vec<(String, usize)> {
        self.files
            .iter()
            .filter(|(_, i)| !Arc::ptr_eq(&self.inodes[**i].data, &self.inodes[**i].durable) && self.inodes[**i].data != self.inodes[**i].durable)
            .map(|(n, i)| (n.clone(), *i))
            .collect()
    }

    /// Image as relative path -> bytes (dirs as "path/"), with the inodes in `lost` rolled back to their durable bytes.
    pub fn image(&self, lost: &[usize]) -> BTreeMap<String, Arc<Vec<u8>>> {
        let mut out = BTreeMap::new();
        let empty = Arc::new(Vec::new());
        for d in &self.dirs {
            out.insert(format!("{d}/"), empty.clone());
        }
        for (n, i) in &self.files {
            let ino = &self.inodes[*i];
            out.insert(n.clone(), if lost.contains(i) { ino.durable.clone() } else { ino.data.clone() });
        }
        out
    }

    pub fn materialise(&self, dst: &Path, lost: &[usize]) {
        let _ = std::fs::remove_dir_all(dst);
        std::fs::create_dir_all(dst).expect("harness: materialise mkdir");
        for d in &self.dirs {
            std::fs::create_dir_all(dst.join(d)).expect("harness: materialise mkdir");
        }
        for (n, i) in &self.files {
            let ino = &self.inodes[*i];
            let bytes = if lost.contains(i) { &ino.durable } else { &ino.data };
            std::fs::write(dst.join(n), &bytes[..]).expect("harness: materialise write");
        }
    }

    /// Compare with a real directory; staging file names are normalised by content.
    pub fn diff_real(&self, real: &Path) -> Option<String> {
        let norm = |m: BTreeMap<String, Vec<u8>>| -> BTreeMap<String, Vec<u8>> {
            let mut out = BTreeMap::new();
            let mut staging: Vec<Vec<u8>> = Vec::new();
            for (k, v) in m {
                if k.starts_with("staging/") && !k.ends_with('/') {
                    staging.push(v);
                } else {
                    out.insert(k, v);
                }
            }
            staging.sort();
            for (i, v) in staging.into_iter().enumerate() {
                out.insert(format!("staging/#{i}"), v);
            }
            out
        };
        let a = norm(self.image(&[]).into_iter().map(|(k, v)| (k, (*v).clone())).collect());
        let b = norm(crate::common::snapshot_tree(real));
        if a == b {
            return None;
        }
        let ka: BTreeSet<_> = a.keys().collect();
        let kb: BTreeSet<_> = b.keys().collect();
        let only_model: Vec<_> = ka.difference(&kb).take(4).collect();
        let only_real: Vec<_> = kb.difference(&ka).take(4).collect();
        let differing: Vec<_> = a.iter().filter(|(k, v)| b.get(*k).is_some_and(|w| w != *v)).map(|(k, v)| format!("{k}: model {} real {}", v.len(), b[k].len())).take(4).collect();
        Some(format!("only in model: {only_model:?}; only in real dir: {only_real:?}; differing: {differing:?}"))
    }
}
