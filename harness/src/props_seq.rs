//! E1-based parts of the properties: bias, lenses and the non-trivial rule for each.

use std::sync::Mutex;

use crate::common::hash_json;
use crate::engine::*;
use crate::gen::{self, Bias};
use crate::seq::{run_seq_dyn, Events, Lenses, SeqCase};

pub struct SeqPart {
    pub name: &'static str,
    pub bias: Bias,
    pub lenses: Lenses,
    pub nontrivial: fn(&Events) -> bool,
    pub quick_cases: u32,
    pub thorough_factor: u32,
    pub rule: &'static str,
}

fn rotate_key_types(seed: u64, n: usize) -> Vec<&'static str> {
    let all = crate::common::KEY_TYPES;
    (0..n).map(|i| all[((seed as usize) + i * 2) % all.len()]).collect()
}

pub fn part_for(prop: &str, tier: Tier, seed: u64) -> SeqPart {
    let kts = match tier {
        Tier::Quick => {
            let mut v = rotate_key_types(seed, 3);
            if !v.contains(&"String") {
                v[0] = "String";
            }
            v
        }
        Tier::Thorough => crate::common::KEY_TYPES.to_vec(),
    };
    let base = Bias { key_types: kts, ..Bias::default() };
    match prop {
        "C01" => SeqPart {
            name: "seq-reads",
            bias: Bias { open_reader: 1, drain_reader: 1, get_range: 2, max_steps: 45, huge: 1, ..base },
            lenses: Lenses { reads: true, ..Default::default() },
            nontrivial: |e| {
                (e.has("overwrite_diff") || e.has("shared_now") || e.has("same_reput") || e.has("rr_multi"))
                    && (e.has("checkpoint") || e.has("rollover"))
            },
            quick_cases: 600,
            thorough_factor: 12,
            rule: "E1 histories (put with chunkings, overlapping transactions, abort, remove, remove_range with all Bound kinds, checkpoint, long-lived readers, get_range) over rotating key types and all configs; after every step every pool key is read through get/get_size/get_reader/get_range and the index guard (len, iter, range, contains_key, get_item, require_item, keys_snapshot) and compared with an ordered-map model; non-trivial = history with an overwrite by different content, shared content, same-content re-put or multi-key remove_range AND a checkpoint or WAL rollover; distinct by hash of (config, steps)",
        },
        "C02" => SeqPart {
            name: "seq-reopen",
            bias: Bias { reopen: 6, checkpoint: 3, max_steps: 45, abort: 1, ..base },
            lenses: Lenses { reopen: true, ..Default::default() },
            nontrivial: |e| e.get("reopen") >= 2 && e.has("reopen_with_muts_between") && (e.has("reopen_at_boundary") || e.has("reopen_after_checkpoint")),
            quick_cases: 300,
            thorough_factor: 12,
            rule: "E1 histories with Reopen (optionally flipping sync mode) and Checkpoint steps, N weighted to 1..3 so that reopens land on every position relative to segment boundaries; at each reopen the observable snapshot (every pool key's bytes-hash/length/size, known_blobs with refcounts, index items, stats.cas) taken before the drop must equal the one after Cas::open and the model; non-trivial = >=2 reopens with a mutating op in between AND (a reopen exactly at a segment boundary / N=1, or directly after a checkpoint); distinct by case hash",
        },
        "C07" => SeqPart {
            name: "seq-listing",
            bias: Bias { keys: 4, big: 1, remove: 5, rr: 3, reopen: 1, max_steps: 45, huge: 1, ..base },
            lenses: Lenses { listing: true, discard_on_op_err: true, ..Default::default() },
            nontrivial: |e| e.has("rc_2_1_0") || e.has("rc_1_0_1") || e.has("same_reput"),
            quick_cases: 600,
            thorough_factor: 12,
            rule: "E1 histories biased to few keys and few contents; after every step the set of regular files under cas/ must equal {path(blake3(c)) : c live in the model} with the right lengths, staging/ must not hold more files than open transactions and must be empty at the end; non-trivial = some content's refcount went 2->1->0 or 1->0->1, or a same-content re-put occurred; distinct by case hash; cases where a call returned Err are discarded (counted)",
        },
        "C12" => SeqPart {
            name: "seq-stats",
            bias: Bias { keys: 5, big: 1, remove: 4, rr: 3, reopen: 3, max_steps: 45, ..base },
            lenses: Lenses { stats: true, ..Default::default() },
            nontrivial: |e| e.has("rc_3_values") || e.has("reopen_while_shared"),
            quick_cases: 600,
            thorough_factor: 12,
            rule: "E1 histories with reopens; after every step and reopen: known_blobs() as a map == model refcounts, contains_blob_hash for members and non-members, stats.cas.unique_blobs/total_bytes == distinct live contents / sum of their lengths, item.blob_size == get_size == content length; non-trivial = some hash's refcount took >=3 distinct values or a reopen happened while a refcount was >=2; distinct by case hash",
        },
        "C13" => SeqPart {
            name: "seq-abort",
            bias: Bias { begin: 7, write: 8, finish: 3, abort: 6, put: 5, reopen: 2, keys: 3, big: 4, max_steps: 40, slots: 2, huge: 1, ..base },
            lenses: Lenses { abort: true, ident_after_abort: true, ..Default::default() },
            nontrivial: |e| e.has("abort_nontrivial"),
            quick_cases: 300,
            thorough_factor: 12,
            rule: "E1 histories with up to 3 concurrently open transactions (also on one key), writes of all sizes, aborts at every position, reopens; Begin/Write/Abort must leave index+log bytes and the cas/ listing unchanged, the abort must leave every observable (reads, refcounts, stats) unchanged and must not leave more staging files than open transactions; transactions committed later on an aborted key must commit exactly their own bytes; after a reopen staging/ is empty and observables are unchanged; non-trivial = abort after >=1 write while the key has a committed value or another transaction on the key is open; distinct by case hash",
        },
        "C06" => SeqPart {
            name: "seq-cashash",
            bias: Bias { open_reader: 4, drain_reader: 2, big: 8, keys: 4, remove: 4, rr: 2, max_steps: 35, huge: 2, ..base },
            lenses: Lenses { cashash: true, ..Default::default() },
            nontrivial: |e| e.has("drain_after_unlink") || (e.has("chunk_gt_8k") && e.has("overwrite_diff")),
            quick_cases: 250,
            thorough_factor: 12,
            rule: "E1 histories with long-lived readers and big contents; after every step every regular file under cas/ must sit at a canonical path and hash to it; a reader obtained earlier must stream exactly the original bytes after overwrite/removal; non-trivial = a reader drained after its blob was unlinked, or an overwrite with a >8 KiB chunk; distinct by case hash",
        },
        "C18" => SeqPart {
            name: "seq-ident",
            bias: Bias { put: 12, begin: 4, write: 7, finish: 3, abort: 2, remove: 1, rr: 0, checkpoint: 0, get_range: 0, big: 5, max_steps: 25, huge: 2, ..base },
            lenses: Lenses { ident: true, ..Default::default() },
            nontrivial: |e| e.has("multi_chunk") || e.has("empty_chunk"),
            quick_cases: 300,
            thorough_factor: 12,
            rule: "E1 histories of streamed puts with generated chunkings (empty chunks, chunks >8 KiB and >64 KiB, multi-write transactions, interleaved with abandoned transactions); after each commit get_item == {blake3(content) computed one-shot by the harness, len} and the file at cas/hh/hh/rest (path computed by the harness) holds the bytes; non-trivial = content delivered in >=2 non-empty chunks or with an empty chunk; distinct by case hash",
        },
        "C20" => SeqPart {
            name: "seq-ondisk",
            bias: Bias { reopen: 4, checkpoint: 3, keys: 5, big: 1, max_steps: 40, ..base },
            lenses: Lenses { ondisk: true, ..Default::default() },
            nontrivial: |e| e.has("ondisk_multi_segment") || e.has("ondisk_snapshot_with_tail") || e.has("reopen"),
            quick_cases: 400,
            thorough_factor: 12,
            rule: "E1 histories with restarts and checkpoints; after every step the independent reader must parse index and every segment strictly (complete records, valid checksums, at most one trailing end marker), versions strictly increasing and inside (i*N,(i+1)*N], no version ever reused with another payload or appearing below an earlier maximum across the whole history, and snapshot+log must decode to the model; non-trivial = an instant with >=2 segments, or a snapshot with a non-empty tail, or a history with a restart; distinct by case hash",
        },
        other => panic!("harness: no sequential part for {other}"),
    }
}

pub fn seq_test(part: &SeqPart) -> impl Fn(&SeqCase) -> R<CaseMeta> + Sync + '_ {
    move |case: &SeqCase| {
        let out = run_seq_dyn(case, part.lenses)?;
        let mut m = CaseMeta { evals: out.steps_run.max(1), ..Default::default() };
        if out.discarded {
            m.discarded = true;
            return Ok(m);
        }
        for (k, v) in &out.ev.m {
            m.classn(k, (*v > 0) as u64);
        }
        m.class(&format!("kt_{}", case.cfg.kt));
        m.class(&format!("n_{}", case.cfg.n));
        if (part.nontrivial)(&out.ev) {
            m.nontrivial.push(hash_json(case));
        }
        Ok(m)
    }
}

pub fn run_seq_part(ctx: &Ctx, acc: &Mutex<Acc>, part: &SeqPart) -> Option<Violation> {
    let cases = ctx.tier.scale(part.quick_cases, part.thorough_factor);
    let test = seq_test(part);
    campaign(ctx, acc, part.name, "E1", cases, 600, |_shard| gen::seq_case(&part.bias), test)
}

pub fn replay_seq(prop: &str, case: serde_json::Value) -> R<CaseMeta> {
    let case: SeqCase = serde_json::from_value(case).expect("harness: bad E1 replay case");
    let part = part_for(prop, Tier::Quick, 0);
    let t = seq_test(&part);
    t(&case)
}
