//! Free-running stress generator (no scheduler): real parallel threads; covers code between the
//! yield points of E3. Oracles use wall-clock timestamps taken before each call and after its
//! return, which only widens intervals and is therefore sound.

use std::collections::BTreeMap;
use std::io::Read;
use std::sync::atomic::{AtomicBool, Ordering};
use std::sync::{Arc, Barrier, Mutex};
use std::time::Instant;

use cassadilia::Cas;
use serde::{Deserialize, Serialize};

use crate::common::*;
use crate::engine::{CaseMeta, Fail, R};
use crate::fail;
use crate::proc::err_path;

/// Waits for the threads; `None` if they do not all finish within `secs` (they are leaked then).
fn join_all<T>(hs: Vec<std::thread::JoinHandle<T>>, secs: u64) -> Option<Vec<std::thread::Result<T>>> {
    let start = Instant::now();
    while !hs.iter().all(|h| h.is_finished()) {
        if start.elapsed().as_secs() >= secs {
            std::mem::forget(hs);
            return None;
        }
        std::thread::sleep(std::time::Duration::from_millis(5));
    }
    Some(hs.into_iter().map(|h| h.join()).collect())
}

pub const HANG_SIG: &str = "stress/hang";

#[derive(Clone, Debug, Serialize, Deserialize)]
pub struct StressCase {
    pub n: u64,
    pub writers: u8,
    pub readers: u8,
    pub writes: u16,
    pub reads: u16,
    /// writers alternate put / remove instead of only overwriting
    pub removes: bool,
    pub seed: u64,
    /// all writers write ONE key (multi-writer): only "no failure, complete payloads" is judged
    #[serde(default)]
    pub hot: bool,
    #[serde(default)]
    pub asyn: bool,
}

fn payload(key: u64, seq: u64) -> Vec<u8> {
    // mostly small (fast overwrites -> many races), sometimes larger than the I/O buffers
    let len = 16 + ((seq * 37 + key * 11) % 200) as usize + if seq % 13 == 0 { 5000 } else { 0 } + if seq % 101 == 0 { 9000 } else { 0 };
    let mut v = Vec::with_capacity(len);
    v.extend_from_slice(&seq.to_le_bytes());
    v.extend_from_slice(&key.to_le_bytes());
    let mut x = seq.wrapping_mul(0x9E37_79B9_7F4A_7C15) ^ key;
    while v.len() < len {
        x ^= x << 13;
        x ^= x >> 7;
        x ^= x << 17;
        v.push(x as u8);
    }
    v
}

#[derive(Clone, Debug)]
struct ReadRec {
    key: u64,
    start: u64,
    end: u64,
    /// Some(seq) for a content observation, None for absent
    seq: Option<u64>,
}

/// Single-writer-per-key atomic-register check.
pub fn run_register(case: &StressCase) -> R<CaseMeta> {
    let scratch = Scratch::new("stress");
    let cfg = crate::seq::Cfg { kt: "U64".into(), n: case.n, asyn: case.asyn, scan: false, verify: false };
    let cas = Cas::<u64>::open(scratch.db(), cfg.config(case.asyn)).map_err(|e| Fail::new("open-err", format!("{e:?}")))?;
    let nw = case.writers.clamp(1, 8) as u64;
    let nr = case.readers.clamp(1, 16) as usize;
    let t0 = Instant::now();
    let now = move || t0.elapsed().as_nanos() as u64;
    let barrier = Arc::new(Barrier::new(nw as usize + nr));
    let stop = Arc::new(AtomicBool::new(false));
    let failure: Arc<Mutex<Option<Fail>>> = Arc::new(Mutex::new(None));
    let mut whandles = Vec::new();
    for w in 0..nw {
        let cas = cas.clone();
        let barrier = barrier.clone();
        let failure = failure.clone();
        let stop = stop.clone();
        let writes = case.writes as u64;
        let removes = case.removes;
        let hot = case.hot;
        whandles.push(std::thread::spawn(move || {
            let mut iv: Vec<(u64, u64)> = Vec::new();
            barrier.wait();
            for seq in 1..=writes {
                if stop.load(Ordering::Relaxed) {
                    break;
                }
                let s = now();
                let wkey = if hot { 0 } else { w };
                let res: Result<(), cassadilia::LibError> = if removes && seq % 2 == 0 {
                    cas.remove(&wkey).map(|_| ())
                } else {
                    (|| {
                        let mut tx = cas.put(wkey)?;
                        let p = payload(w, seq);
                        // two chunks
                        let cut = p.len() / 3;
                        tx.write(&p[..cut]).map_err(|e| cassadilia::LibError::Io { operation: cassadilia::LibIoOperation::WriteStagingFile, path: None, source: std::io::Error::other(format!("{e:?}")) })?;
                        tx.write(&p[cut..]).map_err(|e| cassadilia::LibError::Io { operation: cassadilia::LibIoOperation::WriteStagingFile, path: None, source: std::io::Error::other(format!("{e:?}")) })?;
                        tx.finish()
                    })()
                };
                let e = now();
                if let Err(err) = res {
                    *failure.lock().unwrap() = Some(Fail::new(format!("stress/write-failed/{}", err_path(&err)), format!("writer {w} seq {seq}: {err:?}")));
                    stop.store(true, Ordering::Relaxed);
                    break;
                }
                iv.push((s, e));
            }
            iv
        }));
    }
    let mut rhandles = Vec::new();
    for r in 0..nr {
        let cas = cas.clone();
        let barrier = barrier.clone();
        let failure = failure.clone();
        let stop = stop.clone();
        let reads = case.reads as u64;
        let seed = case.seed;
        let hot = case.hot;
        rhandles.push(std::thread::spawn(move || {
            let mut recs: Vec<ReadRec> = Vec::new();
            let mut x = seed ^ (r as u64 + 1).wrapping_mul(0x9E37_79B9_7F4A_7C15);
            barrier.wait();
            for i in 0..reads {
                if stop.load(Ordering::Relaxed) {
                    break;
                }
                x ^= x << 13;
                x ^= x >> 7;
                x ^= x << 17;
                let key = if hot { 0 } else { x % nw };
                let kind = (x >> 20) % 4;
                let s = now();
                let got: Result<Option<Vec<u8>>, cassadilia::LibError> = match kind {
                    0 | 1 => cas.get(&key).map(|o| o.map(|b| b.to_vec())),
                    2 => cas.get_reader(&key).and_then(|o| match o {
                        None => Ok(None),
                        Some(mut rd) => {
                            let mut b = Vec::new();
                            rd.read_to_end(&mut b).map_err(|e| cassadilia::LibError::Io { operation: cassadilia::LibIoOperation::ReadContent, path: None, source: e })?;
                            Ok(Some(b))
                        }
                    }),
                    _ => cas.get_range(&key, 0, u64::MAX).map(|o| o.map(|b| b.to_vec())),
                };
                let e = now();
                match got {
                    Err(err) => {
                        *failure.lock().unwrap() = Some(Fail::new(format!("stress/read-failed/{}", err_path(&err)), format!("reader {r} read #{i} of key {key} (kind {kind}) failed under concurrent writes: {err:?}")));
                        stop.store(true, Ordering::Relaxed);
                        break;
                    }
                    Ok(None) => recs.push(ReadRec { key, start: s, end: e, seq: None }),
                    Ok(Some(b)) => {
                        if b.len() < 16 {
                            *failure.lock().unwrap() = Some(Fail::new("stress/partial-or-mixed-bytes", format!("read of key {key} returned {} bytes", b.len())));
                            stop.store(true, Ordering::Relaxed);
                            break;
                        }
                        let seq = u64::from_le_bytes(b[..8].try_into().unwrap());
                        let k2 = u64::from_le_bytes(b[8..16].try_into().unwrap());
                        if (if hot { k2 >= nw } else { k2 != key }) || b != payload(k2, seq) {
                            *failure.lock().unwrap() = Some(Fail::new("stress/partial-or-mixed-bytes", format!("read of key {key} returned {} bytes that are not a complete committed content (header seq {seq}, key {k2})", b.len())));
                            stop.store(true, Ordering::Relaxed);
                            break;
                        }
                        recs.push(ReadRec { key, start: s, end: e, seq: Some(seq) });
                    }
                }
            }
            recs
        }));
    }
    let mut writes: Vec<Vec<(u64, u64)>> = Vec::new();
    let Some(wres) = join_all(whandles, 90) else {
        std::mem::forget(scratch);
        fail!(HANG_SIG, "writer threads of a free-running stress case did not finish within 90 s");
    };
    for r in wres {
        writes.push(r.map_err(|_| Fail::new("stress/panic", "a writer thread panicked"))?);
    }
    let mut reads: Vec<ReadRec> = Vec::new();
    let Some(rres) = join_all(rhandles, 90) else {
        std::mem::forget(scratch);
        fail!(HANG_SIG, "reader threads of a free-running stress case did not finish within 90 s");
    };
    for r in rres {
        reads.extend(r.map_err(|_| Fail::new("stress/panic", "a reader thread panicked"))?);
    }
    if let Some(f) = failure.lock().unwrap().take() {
        return Err(f);
    }
    // atomic register condition per key
    let mut overlapping = 0u64;
    if case.hot {
        // multi-writer key: count overlaps only; the final value must be some writer's last payload
        let all: Vec<(u64, u64)> = writes.iter().flatten().copied().collect();
        for r in &reads {
            if all.iter().any(|(s, e)| *s < r.end && r.start < *e) {
                overlapping += 1;
            }
        }
        let ok = match cas.get(&0) {
            Ok(None) => case.removes,
            Ok(Some(b)) => b.len() >= 16 && {
                let seq = u64::from_le_bytes(b[..8].try_into().unwrap());
                let w = u64::from_le_bytes(b[8..16].try_into().unwrap());
                w < nw && seq == writes[w as usize].len() as u64 - if case.removes && writes[w as usize].len() % 2 == 0 { 1 } else { 0 } && b[..] == payload(w, seq)[..]
            },
            Err(_) => false,
        };
        if !ok {
            fail!("stress/final-state", "hot key: the final value is not the last payload written by one of the writers");
        }
        let mut m = CaseMeta { evals: reads.len() as u64 + all.len() as u64, ..Default::default() };
        m.count("reads_overlapping_a_write", overlapping);
        if overlapping > 0 {
            m.nontrivial.push(hash_json(&(case, overlapping)));
        }
        m.class("stress_hot_key");
        return Ok(m);
    }
    for r in &reads {
        let iv = &writes[r.key as usize];
        let lower = iv.iter().take_while(|(_, e)| *e < r.start).count() as u64; // completed before the read began
        let upper = iv.iter().take_while(|(s, _)| *s < r.end).count() as u64; // started before the read ended
        if upper > lower {
            overlapping += 1;
        }
        let ok = match r.seq {
            Some(x) => x >= lower && x <= upper && (!case.removes || x % 2 == 1),
            None => {
                if case.removes {
                    (lower..=upper).any(|v| v % 2 == 0)
                } else {
                    lower == 0
                }
            }
        };
        if !ok {
            fail!("stress/stale-or-future-read", "key {}: a read in [{}..{}] ns observed version {:?}, but versions {lower}..={upper} are the only ones it may see (write {lower} had returned before the read began)", r.key, r.start, r.end, r.seq);
        }
    }
    // final state
    for w in 0..nw {
        let n = writes[w as usize].len() as u64;
        let exp: Option<Vec<u8>> = if n == 0 || (case.removes && n % 2 == 0) { None } else { Some(payload(w, n)) };
        match cas.get(&w) {
            Ok(got) if got.as_ref().map(|b| b.to_vec()) == exp => {}
            other => fail!("stress/final-state", "key {w} after {n} writes: final get = {:?}", other.map(|o| o.map(|b| b.len()))),
        }
    }
    let mut m = CaseMeta { evals: reads.len() as u64 + writes.iter().map(|w| w.len() as u64).sum::<u64>(), ..Default::default() };
    m.count("reads_overlapping_a_write", overlapping);
    if overlapping > 0 {
        m.nontrivial.push(hash_json(&(case, overlapping)));
    }
    m.class(if case.removes { "stress_put_remove" } else { "stress_overwrite" });
    Ok(m)
}

/// Multi-writer stress over a small shared key/content space; judged at quiescence (C04/C07 style).
pub fn run_shared(case: &StressCase, judge_dangling: bool, judge_listing: bool) -> R<CaseMeta> {
    let scratch = Scratch::new("stress2");
    let dir = scratch.db();
    let cfg = crate::seq::Cfg { kt: "U64".into(), n: case.n, asyn: false, scan: false, verify: false };
    let cas = Cas::<u64>::open(&dir, cfg.config(false)).map_err(|e| Fail::new("open-err", format!("{e:?}")))?;
    let nw = case.writers.clamp(2, 8) as usize;
    let barrier = Arc::new(Barrier::new(nw));
    let errs: Arc<Mutex<Vec<String>>> = Arc::new(Mutex::new(Vec::new()));
    let mut hs = Vec::new();
    for w in 0..nw {
        let cas = cas.clone();
        let barrier = barrier.clone();
        let errs = errs.clone();
        let ops = case.writes as u64;
        let seed = case.seed;
        hs.push(std::thread::spawn(move || {
            let mut x = seed ^ (w as u64 + 7).wrapping_mul(0xD6E8_FEB8_6659_FD93);
            barrier.wait();
            for _ in 0..ops {
                x ^= x << 13;
                x ^= x >> 7;
                x ^= x << 17;
                let key = x % 3;
                let c = pool_content(((x >> 8) % 3) as usize);
                let r: Result<(), cassadilia::LibError> = match (x >> 16) % 10 {
                    0..=5 => (|| {
                        let mut tx = cas.put(key)?;
                        tx.write(&c).map_err(|e| cassadilia::LibError::Io { operation: cassadilia::LibIoOperation::WriteStagingFile, path: None, source: std::io::Error::other(format!("{e:?}")) })?;
                        tx.finish()
                    })(),
                    6..=7 => cas.remove(&key).map(|_| ()),
                    8 => cas.remove_range(0..=key).map(|_| ()),
                    _ => cas.checkpoint(),
                };
                if let Err(e) = r {
                    errs.lock().unwrap().push(err_path(&e));
                }
            }
        }));
    }
    let Some(res) = join_all(hs, 90) else {
        std::mem::forget(scratch);
        fail!(HANG_SIG, "threads of a free-running stress case did not finish within 90 s");
    };
    for r in res {
        r.map_err(|_| Fail::new("stress/panic", "a writer thread panicked"))?;
    }
    let errs = errs.lock().unwrap().clone();
    if let Some(e) = errs.first() {
        fail!(format!("stress/write-failed/{e}"), "{} mutating calls failed in an error-free environment, first: {e}", errs.len());
    }
    let snap: BTreeMap<u64, ([u8; 32], u64)> = cas.read_index_state().iter().map(|(k, i)| (*k, (*i.blob_hash.as_bytes(), i.blob_size))).collect();
    for (k, (h, sz)) in &snap {
        if !judge_dangling {
            break;
        }
        let p = dir.join("cas").join(rel_path_of(h));
        match std::fs::read(&p) {
            Ok(d) if d.len() as u64 == *sz && b3(&d) == *h => {}
            Ok(_) => fail!("dangling/blob-content-wrong", "after the stress run key {k} maps to a blob with wrong bytes"),
            Err(_) => fail!("dangling/blob-file-missing", "after the stress run key {k} is visible in the index but its blob {} does not exist", &hexs(h)[..12]),
        }
    }
    let files: std::collections::BTreeSet<String> = list_files(&dir.join("cas")).into_keys().collect();
    let want: std::collections::BTreeSet<String> = snap.values().map(|(h, _)| rel_path_of(h)).collect();
    let mut m = CaseMeta { evals: case.writes as u64 * nw as u64, ..Default::default() };
    if judge_listing && files != want {
        m.class("stress_listing_inexact");
        if !want.is_subset(&files) {
            fail!("listing/blob-missing", "after the stress run cas/ lacks blobs the index references");
        }
        if files.len() > want.len() {
            fail!("listing/unreferenced-blob-left", "after the stress run cas/ holds {} files, the index references {}", files.len(), want.len());
        }
    }
    m.nontrivial.push(hash_json(case));
    m.class("stress_shared");
    Ok(m)
}


/// C15: mixed workload (writers on a shared small space incl. explicit checkpoints and range removals,
/// readers of the same keys); the only oracle is that every thread returns.
pub fn run_mixed(case: &StressCase) -> R<CaseMeta> {
    let scratch = Scratch::new("stress3");
    let dir = scratch.db();
    let cfg = crate::seq::Cfg { kt: "U64".into(), n: case.n, asyn: case.asyn, scan: false, verify: false };
    let cas = Cas::<u64>::open(&dir, cfg.config(case.asyn)).map_err(|e| Fail::new("open-err", format!("{e:?}")))?;
    let nw = case.writers.clamp(2, 6) as usize;
    let nr = case.readers.clamp(1, 8) as usize;
    let barrier = Arc::new(Barrier::new(nw + nr));
    let mut hs = Vec::new();
    for w in 0..nw {
        let cas = cas.clone();
        let barrier = barrier.clone();
        let ops = case.writes as u64;
        let seed = case.seed;
        hs.push(std::thread::spawn(move || {
            let mut x = seed ^ (w as u64 + 3).wrapping_mul(0xD6E8_FEB8_6659_FD93);
            barrier.wait();
            for _ in 0..ops {
                x ^= x << 13;
                x ^= x >> 7;
                x ^= x << 17;
                let key = x % 3;
                let c = pool_content(((x >> 8) % 3) as usize);
                let _ = match (x >> 16) % 10 {
                    0..=4 => (|| {
                        let mut tx = cas.put(key)?;
                        let _ = tx.write(&c);
                        tx.finish()
                    })(),
                    5..=6 => cas.remove(&key).map(|_| ()),
                    7 => cas.remove_range(0..=key).map(|_| ()),
                    _ => cas.checkpoint(),
                };
            }
        }));
    }
    for r in 0..nr {
        let cas = cas.clone();
        let barrier = barrier.clone();
        let reads = case.reads as u64;
        let seed = case.seed;
        hs.push(std::thread::spawn(move || {
            let mut x = seed ^ (r as u64 + 11).wrapping_mul(0x9E37_79B9_7F4A_7C15);
            barrier.wait();
            for _ in 0..reads {
                x ^= x << 13;
                x ^= x >> 7;
                x ^= x << 17;
                let key = x % 3;
                let _ = match (x >> 20) % 3 {
                    0 => cas.get(&key).map(|_| ()),
                    1 => cas.get_range(&key, 0, 9).map(|_| ()),
                    _ => cas.get_size(&key).map(|_| ()),
                };
            }
        }));
    }
    let Some(res) = join_all(hs, 60) else {
        std::mem::forget(scratch);
        fail!("deadlock/stress-hang", "a mixed free-running workload ({nw} writers incl. checkpoints and range removals, {nr} readers) did not finish within 60 s: some calls never return");
    };
    for r in res {
        if r.is_err() {
            let (m, l) = crate::engine::take_panic();
            fail!("concurrent/panic", "a thread of the mixed workload panicked: {m} at {l}");
        }
    }
    let mut m = CaseMeta { evals: (case.writes as u64) * nw as u64 + (case.reads as u64) * nr as u64, ..Default::default() };
    m.nontrivial.push(hash_json(case));
    m.class("stress_mixed");
    Ok(m)
}
