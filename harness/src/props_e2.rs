//! E2-based parts of the properties.

use std::sync::Mutex;

use crate::e2::{run_e2_dyn, E2Case, E2Lenses};
use crate::engine::*;
use crate::fail;
use crate::gen::{self, E2Bias};

pub struct E2Part {
    pub name: &'static str,
    pub bias: E2Bias,
    pub lenses: E2Lenses,
    pub quick_cases: u32,
    pub thorough_factor: u32,
    pub rule: &'static str,
}

pub fn part_for(prop: &str, tier: Tier) -> E2Part {
    let base = E2Bias {
        key_types: vec!["String", "VecU8", "U64"],
        ns: vec![(3, 1), (3, 2), (3, 3), (2, 5), (2, 100)],
        max_epochs: 3,
        min_ops: 3,
        max_ops: 12,
        sync_only: false,
        big: 3,
        validate: if tier == Tier::Thorough { 3 } else { 1 },
    };
    match prop {
        "C03" => E2Part {
            name: "crash-kill",
            bias: base,
            lenses: E2Lenses { recover: true, ..Default::default() },
            quick_cases: 25,
            thorough_factor: 10,
            rule: "E2 epoch chains (1-3 epochs of 3-12 ops: puts incl. large contents and a 9000-byte key, remove, remove_range, checkpoint, in-process reopen; N in {1,2,3,5,100}; both sync modes; optional orphan clean-up after open); a worker process runs each epoch under the LD_PRELOAD trace shim; EVERY state between two mutating filesystem calls (incl. first-time initialisation, recovery replay, after-replay checkpoint, pruning) is reconstructed and opened in-process with recovery+verification: open must succeed, the recovered map must equal the acknowledged ops with the in-flight op applied completely or not at all, every get must return the model bytes, no missing/corrupted blobs; chains continue from a generated crash image. evaluations = images opened; non-trivial = cut strictly inside an op or inside initialisation/recovery/clean-up; distinct by (case hash, epoch, cut)",
        },
        "C09" => E2Part {
            name: "power-loss",
            bias: E2Bias { sync_only: true, big: 5, ..base },
            lenses: E2Lenses { powerloss: true, ..Default::default() },
            quick_cases: 25,
            thorough_factor: 10,
            rule: "E2 epoch chains in Sync mode; for every state between two filesystem calls (mutating or sync) and EVERY non-empty subset of the files that hold bytes not yet covered by fsync/fdatasync, the image in which those files are rolled back to their last synced bytes (directory operations kept) is opened with recovery+verification and judged with the C03 oracle; chains continue from the image that loses everything unsynced. evaluations = power-loss images opened; non-trivial = the lost set contains a CAS blob, a live WAL segment or the index (not just private temp files); distinct by (case hash, epoch, cut, subset)",
        },
        "C06" => E2Part {
            name: "crash-cashash",
            bias: E2Bias { big: 6, max_epochs: 2, ..base },
            lenses: E2Lenses { cashash: true, ..Default::default() },
            quick_cases: 8,
            thorough_factor: 10,
            rule: "E2: at every kill cut every file under cas/ must be at a canonical path and hash to it; the trace must never open a path under cas/ with write access; non-trivial = cut inside an op; distinct by (case, epoch, cut)",
        },
        "C08" => E2Part {
            name: "crash-orphans",
            bias: E2Bias { max_epochs: 2, ..base },
            lenses: E2Lenses { orphan: true, ..Default::default() },
            quick_cases: 8,
            thorough_factor: 10,
            rule: "E2: every kill image is opened with open_with_recover(verify on); OrphanStats (orphaned, missing, corrupted, invalid, staging, total_blobs) must equal an independent diff of the directory against the recovered key map; delete_orphans must report matching counters, leave no orphan/invalid/staging file and not change any referenced blob; non-trivial = cut inside an op or inside recovery/clean-up; distinct by (case, epoch, cut)",
        },
        "C12" => E2Part {
            name: "crash-stats",
            bias: E2Bias { max_epochs: 2, big: 1, ..base },
            lenses: E2Lenses { stats: true, ..Default::default() },
            quick_cases: 6,
            thorough_factor: 10,
            rule: "E2: after recovery of every kill image known_blobs/refcounts/stats/sizes must be consistent with the recovered key map and the blob files; non-trivial = cut inside an op or recovery; distinct by (case, epoch, cut)",
        },
        "C20" => E2Part {
            name: "crash-ondisk",
            bias: E2Bias { big: 1, ..base },
            lenses: E2Lenses { ondisk: true, ..Default::default() },
            quick_cases: 8,
            thorough_factor: 10,
            rule: "E2: at every kill cut (every syscall boundary) the independent reader must parse index and all segments strictly, versions in order/range and never reused along the chain, and snapshot+log must decode to the acknowledged history with the in-flight op applied or not; non-trivial = cut inside an op or recovery; distinct by (case, epoch, cut)",
        },
        other => panic!("harness: no E2 part for {other}"),
    }
}

pub fn e2_test(part: &E2Part) -> impl Fn(&E2Case) -> R<CaseMeta> + Sync + '_ {
    move |case: &E2Case| {
        let mut m = run_e2_dyn(case, part.lenses)?;
        m.class(&format!("kt_{}", case.cfg.kt));
        m.class(&format!("n_{}", case.cfg.n));
        m.class(if case.cfg.asyn { "async" } else { "sync" });
        Ok(m)
    }
}

pub fn run_e2_part(ctx: &Ctx, acc: &Mutex<Acc>, part: &E2Part) -> Option<Violation> {
    crate::proc::ensure_shim();
    let cases = ctx.tier.scale(part.quick_cases, part.thorough_factor);
    let test = e2_test(part);
    campaign(ctx, acc, part.name, "E2", cases, 60, |_shard| gen::e2_case(&part.bias), test)
}

pub const C03_BULK_RULE: &str = "bulk-range part: 100-2600 extra keys are put, then ONE remove_range covering all keys (a large multi-key record), then another put; every kill cut from the start of the range removal on is recovered and judged with the same oracle (the removal must be all-or-nothing however it is logged); non-trivial = cut inside the range removal; distinct by (case, cut)";

pub fn run_c03_bulk(ctx: &Ctx, acc: &Mutex<Acc>) -> Option<Violation> {
    crate::proc::ensure_shim();
    let cases = ctx.tier.scale(1, 6);
    let lenses = E2Lenses { recover: true, ..Default::default() };
    campaign(ctx, acc, "crash-kill-bulk-range", "E2", cases, 10, |_shard| gen::e2_bulk_case(), move |case: &E2Case| {
        let mut m = run_e2_dyn(case, lenses)?;
        m.class("bulk_range_case");
        Ok(m)
    })
}

pub const C06_PL_RULE: &str = "power-loss part (Sync mode): for every state between two filesystem calls and every non-empty subset of the files holding bytes not yet covered by fsync/fdatasync, the image in which those files are rolled back to their last synced bytes (directory operations kept) is materialised, and every file under cas/ in it must be at a canonical path and hash to its path (a blob may be absent, never present with other bytes); recovery itself is judged by C09, not here. non-trivial = the lost set contains a CAS blob, a live WAL segment or the index; distinct by (case, epoch, cut, subset)";

pub fn run_c06_powerloss(ctx: &Ctx, acc: &Mutex<Acc>) -> Option<Violation> {
    crate::proc::ensure_shim();
    let cases = ctx.tier.scale(6, 10);
    let lenses = E2Lenses { powerloss: true, cashash: true, pl_nojudge: true, ..Default::default() };
    let base = part_for("C09", ctx.tier).bias;
    let bias = E2Bias { sync_only: true, big: 6, max_epochs: 2, ..base };
    campaign(ctx, acc, "powerloss-cashash", "E2PL", cases, 40, |_shard| gen::e2_case(&bias), move |case: &E2Case| {
        let mut m = run_e2_dyn(case, lenses)?;
        m.class("powerloss_cashash_case");
        Ok(m)
    })
}

pub fn replay_e2_pl(case: serde_json::Value) -> R<CaseMeta> {
    let case: E2Case = serde_json::from_value(case).expect("harness: bad E2 replay case");
    run_e2_dyn(&case, E2Lenses { powerloss: true, cashash: true, pl_nojudge: true, ..Default::default() })
}

pub fn replay_e2(prop: &str, case: serde_json::Value) -> R<CaseMeta> {
    let case: E2Case = serde_json::from_value(case).expect("harness: bad E2 replay case");
    let part = part_for(prop, Tier::Quick);
    let t = e2_test(&part);
    t(&case)
}

// ---------------------------------------------------------------------------------------------
// C14 fault runs

use crate::fault::{run_fault_dyn, FaultCase};

pub const C14_RULE: &str = "fault runs: generated histories of 4-12 ops (put/overwrite/shared content/remove/remove_range/checkpoint/reads; N in {1,2,3,100}; both sync modes); in 60% of the cases a fault-free earlier session first populates the store (so the faulty session continues existing segments / snapshots); a dry traced run counts the K eligible filesystem calls (mutating calls and fsync/fdatasync) after the store is open; then for EVERY k in 1..=K a fresh worker process runs the whole history with the k-th call failing (EIO, or ENOSPC for write/open/mkdir in 30% of the cases) without side effect; oracle: no panic, no hang (20 s watchdog, confirmed 3x), every op returns; an uncertainty model makes exactly the keys of a failed op {old,new}; every later result, a full read before close, a clean reopen (must succeed) and a full read after it must be consistent with some resolution, all other keys exact; then one more put on the reopened store, a second clean reopen, and that put must be there with every other key unchanged. evaluations = fault runs; non-trivial = the fault fired inside an op and >=2 later ops ran; distinct by (history, k, errno)";

pub fn run_c14(ctx: &Ctx, acc: &Mutex<Acc>) -> Option<Violation> {
    crate::proc::ensure_shim();
    let cases = ctx.tier.scale(4, 15);
    let known = |sig: &str| ctx.known_match(sig).is_some();
    campaign(ctx, acc, "fault-enum", "E2F", cases, 30, |_shard| gen::fault_case(), |case: &FaultCase| {
        let mut m = run_fault_dyn(case, &known)?;
        m.class(&format!("kt_{}", case.cfg.kt));
        m.class(&format!("n_{}", case.cfg.n));
        m.class(if case.enospc { "errno_enospc" } else { "errno_eio" });
        Ok(m)
    })
}

pub const C20_FAULT_RULE: &str = "fault part: the fault-injection campaign of C14 (every eligible filesystem call of a generated history fails once, EIO/ENOSPC; 60% of the stores pre-populated by an earlier session) judged with the independent on-disk reader: after the clean reopen that follows the faulty session, and again after one more acknowledged put on the reopened store, index and every segment must parse strictly, versions must be increasing and in their segment's range, and snapshot + log must decode to exactly the state the store shows (no acknowledged record at or below the snapshot version, no version used twice). Failures of the C14 oracle itself are not reported here (discarded, counted). non-trivial = the fault fired inside an op and >=2 later ops ran; distinct by (history, k, errno)";

pub fn run_c20_fault(ctx: &Ctx, acc: &Mutex<Acc>) -> Option<Violation> {
    crate::proc::ensure_shim();
    crate::fault::ONDISK_LENS.store(true, std::sync::atomic::Ordering::SeqCst);
    let cases = ctx.tier.scale(2, 10);
    let v = campaign(ctx, acc, "fault-ondisk", "E2FD", cases, 30, |_shard| gen::fault_case(), |case: &FaultCase| {
        match run_fault_dyn(case, &|_s: &str| false) {
            Ok(m) => Ok(m),
            Err(f) if f.sig.starts_with("ondisk/") => Err(f),
            Err(_) => Ok(CaseMeta { discarded: true, ..Default::default() }),
        }
    });
    crate::fault::ONDISK_LENS.store(false, std::sync::atomic::Ordering::SeqCst);
    v
}

pub fn replay_c20_fault(case: serde_json::Value) -> R<CaseMeta> {
    let case: FaultCase = serde_json::from_value(case).expect("harness: bad fault replay case");
    crate::fault::ONDISK_LENS.store(true, std::sync::atomic::Ordering::SeqCst);
    let r = run_fault_dyn(&case, &|_s: &str| false);
    crate::fault::ONDISK_LENS.store(false, std::sync::atomic::Ordering::SeqCst);
    match r {
        Err(f) if !f.sig.starts_with("ondisk/") => Ok(CaseMeta { discarded: true, ..Default::default() }),
        other => other,
    }
}

pub fn replay_c14(case: serde_json::Value) -> R<CaseMeta> {
    let case: FaultCase = serde_json::from_value(case).expect("harness: bad fault replay case");
    run_fault_dyn(&case, &|_s: &str| false)
}

// ---------------------------------------------------------------------------------------------
// C06: shard directories on another filesystem (unusual configuration)

pub const C06_XDEV_RULE: &str = "cross-filesystem shard part: before the store is used, the first-level CAS directories of generated contents are planted as symlinks to a directory on ANOTHER filesystem (the rename from staging/ then fails with EXDEV); a traced worker runs puts/re-puts/removes of those contents; the store may refuse such a put, but the trace must never contain an open with write access, a write or a truncate of a path under cas/, and every file visible under cas/ afterwards must hash to its path; skipped (counted) when the sandbox has no second writable filesystem. non-trivial = a put whose blob path crosses the filesystem boundary; distinct by case hash";

#[derive(Clone, Debug, serde::Serialize, serde::Deserialize)]
pub struct XdevCase {
    pub contents: Vec<u8>,
    pub ops: Vec<crate::seq::Step>,
}

fn other_fs_dir() -> Option<std::path::PathBuf> {
    use std::os::unix::fs::MetadataExt;
    let here = std::fs::metadata(crate::common::scratch_base()).ok()?.dev();
    for cand in [std::env::var("VERIF_DIR").unwrap_or_else(|_| "/verif".into()) + "/.scratch", "/var/tmp".to_string(), "/tmp".to_string()] {
        let p = std::path::PathBuf::from(&cand);
        if std::fs::create_dir_all(&p).is_err() {
            continue;
        }
        if let Ok(m) = std::fs::metadata(&p) {
            if m.dev() != here {
                return Some(p);
            }
        }
    }
    None
}

fn xdev_run(case: &XdevCase) -> R<CaseMeta> {
    use crate::common::*;
    use crate::fsmodel::{Ev, O_ACCMODE};
    use crate::proc::{run_worker, Script, ShimMode};
    let mut m = CaseMeta { evals: 1, ..Default::default() };
    let Some(other) = other_fs_dir() else {
        m.class("xdev_unavailable");
        m.discarded = true;
        return Ok(m);
    };
    let scratch = Scratch::new("xdev");
    let db = scratch.db();
    let work = scratch.path.join("work");
    std::fs::create_dir_all(&work).expect("harness: mkdir");
    let remote = other.join(format!("cassverif-xdev-{}-{}", std::process::id(), hash_json(case) % 1_000_000));
    let _ = std::fs::remove_dir_all(&remote);
    std::fs::create_dir_all(&remote).expect("harness: mkdir remote");
    struct Rm(std::path::PathBuf);
    impl Drop for Rm {
        fn drop(&mut self) {
            let _ = std::fs::remove_dir_all(&self.0);
        }
    }
    let _rm = Rm(remote.clone());
    std::fs::create_dir_all(db.join("cas")).expect("harness: mkdir cas");
    let mut crossing = 0;
    for c in &case.contents {
        let h = b3(&pool_content(*c as usize));
        let l1 = &hexs(&h)[..2];
        let link = db.join("cas").join(l1);
        if link.exists() {
            continue;
        }
        std::fs::create_dir_all(remote.join(l1)).expect("harness: mkdir remote shard");
        std::os::unix::fs::symlink(remote.join(l1), &link).expect("harness: symlink");
        crossing += 1;
    }
    let script = Script { cfg: crate::seq::Cfg { kt: "String".into(), n: 100, asyn: false, scan: true, verify: false }, asyn: false, cleanup: false, ops: case.ops.clone(), dump: false, pre_create: false };
    let run = run_worker(&db, &work, "xdev", &script, ShimMode::Trace, std::time::Duration::from_secs(60));
    let root = db.to_string_lossy().to_string();
    let mut fds: std::collections::HashMap<i32, String> = std::collections::HashMap::new();
    for e in &run.trace {
        match &e.ev {
            Ev::Open { ret, flags, path } if *ret >= 0 => {
                let rel = path.strip_prefix(&root).unwrap_or(path).to_string();
                if rel.starts_with("/cas/") && (flags & O_ACCMODE) != 0 {
                    fail!("cashash/write-open-under-cas", "a file under cas/ was opened with write access: {rel} (flags {flags:x}) — the blob becomes visible before it is complete");
                }
                fds.insert(*ret as i32, rel);
            }
            Ev::Write { fd, ret, .. } if *ret > 0 => {
                if fds.get(fd).is_some_and(|p| p.starts_with("/cas/")) {
                    fail!("cashash/write-under-cas", "a file under cas/ was written in place");
                }
            }
            Ev::Trunc { fd, ret, .. } if *ret == 0 => {
                if fds.get(fd).is_some_and(|p| p.starts_with("/cas/")) {
                    fail!("cashash/truncate-under-cas", "a file under cas/ was truncated");
                }
            }
            Ev::Close { fd } => {
                fds.remove(fd);
            }
            Ev::Unmodelled(w) => fail!("cashash/unmodelled-write-path", "the store used {w} on a database file"),
            _ => {}
        }
    }
    if run.out.ops.iter().any(|o| o.status == "panic") {
        fail!("xdev/panic", "an operation panicked on a store with a cross-filesystem shard");
    }
    // every file visible under cas/ (following the planted symlinks) hashes to its path
    fn walk(base: &std::path::Path, dir: &std::path::Path, out: &mut Vec<(String, Vec<u8>)>) {
        let Ok(rd) = std::fs::read_dir(dir) else { return };
        for e in rd.flatten() {
            let p = e.path();
            let Ok(md) = std::fs::metadata(&p) else { continue };
            if md.is_dir() {
                walk(base, &p, out);
            } else {
                out.push((p.strip_prefix(base).unwrap().to_string_lossy().to_string(), std::fs::read(&p).unwrap_or_default()));
            }
        }
    }
    let mut files = Vec::new();
    walk(&db.join("cas"), &db.join("cas"), &mut files);
    for (rel, data) in files {
        match is_canonical_blob_rel(&rel) {
            Some(h) if b3(&data) == h => {}
            _ => fail!("cashash/content-mismatch", "cas/{rel} holds {} bytes that do not hash to its path", data.len()),
        }
    }
    let failed = run.out.ops.iter().filter(|o| o.status == "err").count();
    m.classn("xdev_puts_refused", failed as u64);
    if crossing > 0 {
        m.nontrivial.push(hash_json(case));
        m.class("xdev_shard_planted");
    }
    Ok(m)
}

pub fn run_c06_xdev(ctx: &Ctx, acc: &Mutex<Acc>) -> Option<Violation> {
    use proptest::prelude::*;
    crate::proc::ensure_shim();
    let cases = ctx.tier.scale(1, 6);
    let strat = || {
        (proptest::collection::vec(0u8..9, 1..4), proptest::collection::vec((0u8..4, 0u8..9, any::<bool>()), 2..8)).prop_map(|(contents, raw)| {
            let ops = raw
                .into_iter()
                .map(|(k, c, rm)| if rm { crate::seq::Step::Remove { k } } else { crate::seq::Step::Put { k, c: crate::common::C::P(c), cuts: vec![5] } })
                .collect();
            XdevCase { contents, ops }
        })
    };
    campaign(ctx, acc, "xdev-shard", "XDEV", cases, 20, |_| strat(), xdev_run)
}

pub fn replay_xdev(case: serde_json::Value) -> R<CaseMeta> {
    xdev_run(&serde_json::from_value(case).expect("harness: bad XDEV case"))
}
