//! Independent reader of the documented on-disk formats. Shares no code with the crate.
//!
//! index:    [u64 version][u32 n]{[u32 klen][key][32B hash][u64 size]}*      (consumed exactly)
//! segment:  {[u64 version][32B blake3(payload)][u32 len][payload]}* [44 zero bytes]?
//! payload:  0 [u32 klen][key][32B hash][u64 size]   |   1 [u32 n]{[u32 klen][key]}*
//! settings: {"version":u32,"dir_tree_is_pre_created":bool,"num_ops_per_wal":u64}

use std::collections::BTreeMap;
use std::path::Path;

pub const HDR: usize = 44;

#[derive(Clone, Debug, PartialEq, Eq)]
pub enum Op {
    Put { key: Vec<u8>, hash: [u8; 32], size: u64 },
    Remove { keys: Vec<Vec<u8>> },
}

#[derive(Clone, Debug)]
pub struct Rec {
    pub version: u64,
    pub payload: Vec<u8>,
    pub op: Op,
    /// byte range of the whole record inside its segment file
    pub start: usize,
    pub end: usize,
}

#[derive(Clone, Debug)]
pub struct Seg {
    pub id: u64,
    pub recs: Vec<Rec>,
    pub sentinel: bool,
    pub len: usize,
}

#[derive(Clone, Debug)]
pub struct Snap {
    pub version: u64,
    pub entries: Vec<(Vec<u8>, [u8; 32], u64)>,
}

#[derive(Clone, Debug, Default)]
pub struct Disk {
    pub snap: Option<Snap>,
    pub segs: Vec<Seg>,
    pub settings_n: Option<u64>,
}

pub type State = BTreeMap<Vec<u8>, ([u8; 32], u64)>;

struct Cur<'a> {
    b: &'a [u8],
    p: usize,
}
impl<'a> Cur<'a> {
    fn take(&mut self, n: usize) -> Result<&'a [u8], String> {
        if self.b.len() - self.p < n {
            return Err(format!("short read: need {n} at {} of {}", self.p, self.b.len()));
        }
        let s = &self.b[self.p..self.p + n];
        self.p += n;
        Ok(s)
    }
    fn u32(&mut self) -> Result<u32, String> {
        Ok(u32::from_le_bytes(self.take(4)?.try_into().unwrap()))
    }
    fn u64(&mut self) -> Result<u64, String> {
        Ok(u64::from_le_bytes(self.take(8)?.try_into().unwrap()))
    }
    fn h32(&mut self) -> Result<[u8; 32], String> {
        Ok(self.take(32)?.try_into().unwrap())
    }
    fn done(&self) -> bool {
        self.p == self.b.len()
    }
}

pub fn parse_op(payload: &[u8]) -> Result<Op, String> {
    let mut c = Cur { b: payload, p: 0 };
    let tag = c.take(1)?[0];
    let op = match tag {
        0 => {
            let kl = c.u32()? as usize;
            let key = c.take(kl)?.to_vec();
            let hash = c.h32()?;
            let size = c.u64()?;
            Op::Put { key, hash, size }
        }
        1 => {
            let n = c.u32()? as usize;
            let mut keys = Vec::new();
            for _ in 0..n {
                let kl = c.u32()? as usize;
                keys.push(c.take(kl)?.to_vec());
            }
            Op::Remove { keys }
        }
        t => return Err(format!("bad op tag {t}")),
    };
    if !c.done() {
        return Err(format!("trailing {} bytes in op payload", payload.len() - c.p));
    }
    Ok(op)
}

pub fn encode_op(op: &Op) -> Vec<u8> {
    let mut v = Vec::new();
    match op {
        Op::Put { key, hash, size } => {
            v.push(0);
            v.extend_from_slice(&(key.len() as u32).to_le_bytes());
            v.extend_from_slice(key);
            v.extend_from_slice(hash);
            v.extend_from_slice(&size.to_le_bytes());
        }
        Op::Remove { keys } => {
            v.push(1);
            v.extend_from_slice(&(keys.len() as u32).to_le_bytes());
            for k in keys {
                v.extend_from_slice(&(k.len() as u32).to_le_bytes());
                v.extend_from_slice(k);
            }
        }
    }
    v
}

pub fn encode_snapshot(version: u64, entries: &[(Vec<u8>, [u8; 32], u64)]) -> Vec<u8> {
    let mut v = Vec::new();
    v.extend_from_slice(&version.to_le_bytes());
    v.extend_from_slice(&(entries.len() as u32).to_le_bytes());
    for (k, h, s) in entries {
        v.extend_from_slice(&(k.len() as u32).to_le_bytes());
        v.extend_from_slice(k);
        v.extend_from_slice(h);
        v.extend_from_slice(&s.to_le_bytes());
    }
    v
}

pub fn encode_record(version: u64, payload: &[u8]) -> Vec<u8> {
    let mut v = Vec::with_capacity(HDR + payload.len());
    v.extend_from_slice(&version.to_le_bytes());
    v.extend_from_slice(blake3::hash(payload).as_bytes());
    v.extend_from_slice(&(payload.len() as u32).to_le_bytes());
    v.extend_from_slice(payload);
    v
}

/// Strict segment parser: complete records with valid checksums, at most one trailing sentinel.
pub fn parse_segment(id: u64, bytes: &[u8]) -> Result<Seg, String> {
    let mut recs = Vec::new();
    let mut p = 0usize;
    let mut sentinel = false;
    while p < bytes.len() {
        if bytes.len() - p < HDR {
            return Err(format!("segment {id}: {} stray bytes at offset {p} (partial header)", bytes.len() - p));
        }
        let hdr = &bytes[p..p + HDR];
        let version = u64::from_le_bytes(hdr[0..8].try_into().unwrap());
        if version == 0 {
            if hdr.iter().any(|b| *b != 0) {
                return Err(format!("segment {id}: version-0 header that is not an all-zero sentinel at {p}"));
            }
            if p + HDR != bytes.len() {
                return Err(format!("segment {id}: {} bytes after the end marker", bytes.len() - p - HDR));
            }
            sentinel = true;
            break;
        }
        let sum: [u8; 32] = hdr[8..40].try_into().unwrap();
        let len = u32::from_le_bytes(hdr[40..44].try_into().unwrap()) as usize;
        if len == 0 {
            return Err(format!("segment {id}: zero-length record v{version} at {p}"));
        }
        if bytes.len() - p - HDR < len {
            return Err(format!(
                "segment {id}: incomplete record v{version} at {p}: payload {} of {len} bytes",
                bytes.len() - p - HDR
            ));
        }
        let payload = &bytes[p + HDR..p + HDR + len];
        if blake3::hash(payload).as_bytes() != &sum {
            return Err(format!("segment {id}: checksum mismatch in record v{version} at {p}"));
        }
        let op = parse_op(payload).map_err(|e| format!("segment {id}: record v{version}: {e}"))?;
        recs.push(Rec { version, payload: payload.to_vec(), op, start: p, end: p + HDR + len });
        p += HDR + len;
    }
    Ok(Seg { id, recs, sentinel, len: bytes.len() })
}

pub fn parse_snapshot(bytes: &[u8]) -> Result<Snap, String> {
    let mut c = Cur { b: bytes, p: 0 };
    let version = c.u64().map_err(|e| format!("index: {e}"))?;
    let n = c.u32().map_err(|e| format!("index: {e}"))?;
    let mut entries = Vec::new();
    for i in 0..n {
        let kl = c.u32().map_err(|e| format!("index entry {i}: {e}"))? as usize;
        let key = c.take(kl).map_err(|e| format!("index entry {i}: {e}"))?.to_vec();
        let h = c.h32().map_err(|e| format!("index entry {i}: {e}"))?;
        let s = c.u64().map_err(|e| format!("index entry {i}: {e}"))?;
        entries.push((key, h, s));
    }
    if !c.done() {
        return Err(format!("index: {} trailing bytes", bytes.len() - c.p));
    }
    Ok(Snap { version, entries })
}

pub fn segment_id_of(name: &str) -> Option<u64> {
    let id = name.strip_suffix("_index.wal")?;
    if id.is_empty() || !id.bytes().all(|b| b.is_ascii_digit()) {
        return None;
    }
    id.parse().ok()
}

pub fn read_disk(dir: &Path) -> Result<Disk, String> {
    let mut d = Disk::default();
    let rd = std::fs::read_dir(dir).map_err(|e| format!("read_dir: {e}"))?;
    for e in rd.flatten() {
        let name = e.file_name().to_string_lossy().to_string();
        let p = e.path();
        if !p.is_file() {
            continue;
        }
        if name == "index" {
            let b = std::fs::read(&p).map_err(|e| e.to_string())?;
            d.snap = Some(parse_snapshot(&b)?);
        } else if let Some(id) = segment_id_of(&name) {
            let b = std::fs::read(&p).map_err(|e| e.to_string())?;
            d.segs.push(parse_segment(id, &b)?);
        } else if name == "db_settings.json" {
            let b = std::fs::read(&p).map_err(|e| e.to_string())?;
            let v: serde_json::Value = serde_json::from_slice(&b).map_err(|e| format!("settings: {e}"))?;
            d.settings_n = v.get("num_ops_per_wal").and_then(|x| x.as_u64());
        }
    }
    d.segs.sort_by_key(|s| s.id);
    Ok(d)
}

impl Disk {
    pub fn snap_version(&self) -> u64 {
        self.snap.as_ref().map_or(0, |s| s.version)
    }

    /// (b) of C20: versions strictly increase through the log and lie in (i*N, (i+1)*N]
    pub fn check_versions(&self, n: u64) -> Result<(), String> {
        let mut last = 0u64;
        for s in &self.segs {
            for r in &s.recs {
                if r.version <= last {
                    return Err(format!("version {} in segment {} not above previous {}", r.version, s.id, last));
                }
                last = r.version;
                let lo = (s.id as u128) * (n as u128);
                let hi = (s.id as u128 + 1) * (n as u128);
                let v = r.version as u128;
                if !(v > lo && v <= hi) {
                    return Err(format!("version {} outside range ({lo},{hi}] of segment {}", r.version, s.id));
                }
            }
        }
        Ok(())
    }

    pub fn decode_state(&self) -> State {
        let mut st = State::new();
        let sv = self.snap_version();
        if let Some(s) = &self.snap {
            for (k, h, z) in &s.entries {
                st.insert(k.clone(), (*h, *z));
            }
        }
        for seg in &self.segs {
            for r in &seg.recs {
                if r.version > sv {
                    apply(&mut st, &r.op);
                }
            }
        }
        st
    }

    pub fn all_records(&self) -> impl Iterator<Item = &Rec> {
        self.segs.iter().flat_map(|s| s.recs.iter())
    }

    pub fn max_version(&self) -> u64 {
        self.all_records().map(|r| r.version).max().unwrap_or(0).max(self.snap_version())
    }
}

pub fn apply(st: &mut State, op: &Op) {
    match op {
        Op::Put { key, hash, size } => {
            st.insert(key.clone(), (*hash, *size));
        }
        Op::Remove { keys } => {
            for k in keys {
                st.remove(k);
            }
        }
    }
}
