//! C11 — exclusive ownership of a database directory: generated race plans over threads and
//! processes, idle-owner/loser traces, clones and OrphanStats outliving the handle, killed owners.

use std::collections::BTreeMap;
use std::num::NonZeroU64;
use std::path::{Path, PathBuf};
use std::sync::Mutex;
use std::time::Duration;

use cassadilia::{Cas, Config, LibError, SyncMode};
use proptest::collection::vec;
use proptest::prelude::*;
use serde::{Deserialize, Serialize};

use crate::common::*;
use crate::engine::*;
use crate::fail;
use crate::fsmodel::Ev;
use crate::proc::{err_path, run_worker, Script, ShimMode};
use crate::seq::Cfg;

pub const C11_RULE: &str = "race plans: 2-6 contenders (each a thread of the harness or a separate process), start offsets 0-2000 us after a common barrier, hold times 0-20 ms, on a fresh or a populated directory (un-checkpointed WAL tail, so a loser that got as far as loading the index would visibly checkpoint). some contenders pass a different num_ops_per_wal. Oracle (1): every open returns Ok or exactly AlreadyOpened (a contender whose num_ops_per_wal differs from the recorded one may also be refused by the settings check; a winner always has the recorded value); the CLOCK_MONOTONIC intervals [after open returned, before drop] of the successful opens are pairwise disjoint (recorded intervals lie inside the true holding intervals, so overlap means two live handles). (2) with an idle owner alive, a losing open traced by the LD_PRELOAD shim performs no successful mutating filesystem call under the root except opening LOCK, and the directory is byte-for-byte identical before/after. (3) while a clone or an OrphanStats of the owner lives, open fails; after the last one is dropped, or the owner process is killed with SIGKILL, the next open succeeds and shows the model state. (4) an owning process that started (fork+exec) an unrelated child while holding the directory drops its handle and exits, or is killed; the next open succeeds although the child is still running. non-trivial = plan in which >=2 open calls overlapped in time (measured), or a kill / clone / traced-loser / surviving-child scenario; distinct by plan hash";

#[derive(Clone, Debug, Serialize, Deserialize)]
pub enum Scenario {
    Race,
    IdleOwnerLoser,
    CloneOutlives { orphan_stats: bool },
    KillOwner,
    /// the owning process starts (fork+exec) an unrelated long-lived child while it holds the directory, then
    /// drops the handle and exits (`kill` = false) or is killed (`kill` = true); the child outlives it
    OwnerSpawnsChild { kill: bool },
}

#[derive(Clone, Debug, Serialize, Deserialize)]
pub struct Plan {
    pub populated: bool,
    pub scenario: Scenario,
    /// (is_process, start offset in us, hold in ms)
    pub contenders: Vec<(bool, u16, u8)>,
    /// contenders (by index) that pass a different num_ops_per_wal (7 instead of 100)
    #[serde(default)]
    pub alt_n: Vec<bool>,
}

/// The harness is multi-threaded and creates processes. Between fork and exec a child holds
/// duplicates of every descriptor of the harness — including LOCK files of stores that harness
/// threads have open — and keeps their flock alive until its exec. To keep that artefact out of the
/// experiment, process creation (write side) never overlaps with a harness thread holding a store
/// of this check open (read side). `Command::spawn` returns only after the child has exec'ed.
static FORK_GATE: std::sync::RwLock<()> = std::sync::RwLock::new(());

fn gate_read() -> std::sync::RwLockReadGuard<'static, ()> {
    FORK_GATE.read().unwrap_or_else(|e| e.into_inner())
}
fn gate_write() -> std::sync::RwLockWriteGuard<'static, ()> {
    FORK_GATE.write().unwrap_or_else(|e| e.into_inner())
}

fn cfg() -> Config {
    cfg_with(100)
}

fn cfg_with(n: u64) -> Config {
    Config {
        sync_mode: SyncMode::Sync,
        num_ops_per_wal: NonZeroU64::new(n).unwrap(),
        pre_create_cas_dirs: false,
        scan_orphans_on_startup: true,
        verify_blob_integrity: false,
        fail_on_integrity_errors: true,
    }
}

fn now_ns() -> u64 {
    let mut ts = libc::timespec { tv_sec: 0, tv_nsec: 0 };
    unsafe { libc::clock_gettime(libc::CLOCK_MONOTONIC, &mut ts) };
    ts.tv_sec as u64 * 1_000_000_000 + ts.tv_nsec as u64
}

fn wait_until(t: u64) {
    loop {
        let n = now_ns();
        if n >= t {
            return;
        }
        if t - n > 200_000 {
            std::thread::sleep(Duration::from_nanos((t - n) / 2));
        } else {
            std::hint::spin_loop();
        }
    }
}

#[derive(Clone, Debug, Serialize, Deserialize, Default)]
pub struct Probe {
    pub ok: bool,
    pub err: String,
    pub t0: u64,
    pub t1: u64,
    pub t2: u64,
    pub keys: Vec<String>,
    #[serde(default)]
    pub n: u64,
}

fn probe(root: &Path, start_at: u64, hold_ms: u64, n: u64) -> Probe {
    wait_until(start_at);
    let t0 = now_ns();
    let r = Cas::<String>::open(root, cfg_with(n));
    let t1 = now_ns();
    match r {
        Ok(cas) => {
            let keys: Vec<String> = cas.read_index_state().iter().map(|(k, i)| format!("{k}={}", &i.blob_hash.to_hex()[..8])).collect();
            std::thread::sleep(Duration::from_millis(hold_ms));
            let t2 = now_ns();
            drop(cas);
            Probe { ok: true, err: String::new(), t0, t1, t2, keys, n }
        }
        Err(e) => Probe { ok: false, err: err_path(&e), t0, t1, t2: t1, keys: vec![], n },
    }
}

/// `vcheck lockprobe <root> <start_at_ns> <hold_ms> <out>`
pub fn lockprobe_main(args: &[String]) -> i32 {
    if args[0] == "populate" {
        return match populate_here(Path::new(&args[1])) {
            Ok(_) => 0,
            Err(_) => 9,
        };
    }
    if args[0] == "sleep" {
        std::thread::sleep(Duration::from_millis(args[1].parse().unwrap_or(0)));
        return 0;
    }
    if args[0] == "ownchild" {
        // ownchild <root> <out> <child_ms> <stay>
        let cas = match Cas::<String>::open(Path::new(&args[1]), cfg()) {
            Ok(c) => c,
            Err(_) => return 9,
        };
        let exe = std::env::current_exe().expect("harness: current_exe");
        // this process is single-threaded: spawn returns once the child has exec'ed
        let child = std::process::Command::new(exe).arg("lockprobe").arg("sleep").arg(&args[3]).stdin(std::process::Stdio::null()).stdout(std::process::Stdio::null()).stderr(std::process::Stdio::null()).spawn().expect("harness: spawn sleeper");
        let tmp = format!("{}.tmp", args[2]);
        std::fs::write(&tmp, child.id().to_string()).expect("harness: write pid");
        std::fs::rename(&tmp, &args[2]).expect("harness: rename pid");
        if args[4] == "1" {
            std::thread::sleep(Duration::from_secs(120));
        }
        drop(cas);
        return 0;
    }
    let root = PathBuf::from(&args[0]);
    let start_at: u64 = args[1].parse().unwrap_or(0);
    let hold: u64 = args[2].parse().unwrap_or(0);
    let n: u64 = args.get(4).and_then(|x| x.parse().ok()).unwrap_or(100);
    let p = probe(&root, start_at, hold, n);
    std::fs::write(&args[3], serde_json::to_vec(&p).unwrap()).expect("harness: write probe result");
    0
}

/// Opens a directory that nobody owns any more. The harness itself is multi-threaded and spawns
/// processes: between fork and exec a child briefly holds duplicates of every descriptor of the
/// harness, including LOCK files of handles that were just dropped, which keeps their flock alive
/// for a moment. That artefact of the harness (not of the store) is absorbed by retrying for at
/// most 300 ms; a lock that is really not released stays held far longer and is still reported.
fn open_free(db: &Path, with_stats: bool) -> Result<(Cas<String>, Option<cassadilia::OrphanStats<String>>), LibError> {
    let mut last = None;
    for _ in 0..150 {
        let r = if with_stats { Cas::<String>::open_with_recover(db, cfg()) } else { Cas::<String>::open(db, cfg()).map(|c| (c, None)) };
        match r {
            Err(LibError::AlreadyOpened) => {
                last = Some(LibError::AlreadyOpened);
                std::thread::sleep(Duration::from_millis(2));
            }
            other => return other,
        }
    }
    Err(last.unwrap_or(LibError::AlreadyOpened))
}

/// Populates the directory in a separate process, so that the harness process never owns a
/// descriptor of that LOCK file which a concurrent fork could keep alive.
fn populate(db: &Path) -> R<BTreeMap<String, [u8; 32]>> {
    let exe = std::env::current_exe().expect("harness: current_exe");
    let _gate = gate_write();
    let st = std::process::Command::new(exe).arg("lockprobe").arg("populate").arg(db).stdin(std::process::Stdio::null()).stdout(std::process::Stdio::null()).stderr(std::process::Stdio::null()).status().expect("harness: spawn populate");
    if !st.success() {
        fail!("open-err", "populating a fresh directory failed: {st:?}");
    }
    let mut model = BTreeMap::new();
    for (k, c) in [("a", 1usize), ("b", 2), ("c", 1)] {
        model.insert(k.to_string(), b3(&pool_content(c)));
    }
    Ok(model)
}

fn populate_here(db: &Path) -> R<BTreeMap<String, [u8; 32]>> {
    let mut model = BTreeMap::new();
    let (cas, _) = open_free(db, false).map_err(|e| Fail::new("open-err", format!("{e:?}")))?;
    for (k, c) in [("a", 1usize), ("b", 2), ("c", 1)] {
        let mut tx = cas.put(k.to_string()).map_err(|e| Fail::new("op-err", format!("{e:?}")))?;
        tx.write(&pool_content(c)).map_err(|e| Fail::new("op-err", format!("{e:?}")))?;
        tx.finish().map_err(|e| Fail::new("op-err", format!("{e:?}")))?;
        model.insert(k.to_string(), b3(&pool_content(c)));
    }
    Ok(model)
}

fn check_final(db: &Path, model: &BTreeMap<String, [u8; 32]>, what: &str) -> R<()> {
    match open_free(db, false) {
        Ok((cas, _)) => {
            let got: BTreeMap<String, [u8; 32]> = cas.read_index_state().iter().map(|(k, i)| (k.clone(), *i.blob_hash.as_bytes())).collect();
            if &got != model {
                fail!("exclusive/state-changed", "{what}: the store shows {} keys, the model {}", got.len(), model.len());
            }
            Ok(())
        }
        Err(e) => fail!(format!("exclusive/open-after-release-fails/{}", err_path(&e)), "{what}: open after every owner was released fails: {e:?}"),
    }
}

fn spawn_probe(db: &Path, out: &Path, start_at: u64, hold: u64) -> std::process::Child {
    spawn_probe_n(db, out, start_at, hold, 100)
}

fn spawn_probe_n(db: &Path, out: &Path, start_at: u64, hold: u64, n: u64) -> std::process::Child {
    let exe = std::env::current_exe().expect("harness: current_exe");
    let _gate = gate_write();
    std::process::Command::new(exe)
        .arg("lockprobe")
        .arg(db)
        .arg(start_at.to_string())
        .arg(hold.to_string())
        .arg(out)
        .arg(n.to_string())
        .stdin(std::process::Stdio::null())
        .stdout(std::process::Stdio::null())
        .stderr(std::process::Stdio::null())
        .spawn()
        .expect("harness: spawn lockprobe")
}

fn c11_run(plan: &Plan) -> R<CaseMeta> {
    let scratch = Scratch::new("c11");
    let db = scratch.db();
    let mut m = CaseMeta { evals: 1, ..Default::default() };
    let id = hash_json(plan);
    let model = if plan.populated { populate(&db)? } else { BTreeMap::new() };
    match &plan.scenario {
        Scenario::Race => {
            let barrier = now_ns() + 40_000_000;
            let mut threads = Vec::new();
            let mut procs = Vec::new();
            for (i, (is_proc, off, hold)) in plan.contenders.iter().enumerate() {
                let start = barrier + *off as u64 * 1000;
                let n = if plan.alt_n.get(i).copied().unwrap_or(false) { 7 } else { 100 };
                if *is_proc {
                    let out = scratch.path.join(format!("probe{i}.json"));
                    procs.push((spawn_probe_n(&db, &out, start, *hold as u64, n), out));
                } else {
                    let dbc = db.clone();
                    let hold = *hold as u64;
                    threads.push(std::thread::spawn(move || {
                        wait_until(start);
                        let _gate = gate_read();
                        probe(&dbc, 0, hold, n)
                    }));
                }
            }
            let mut probes: Vec<Probe> = Vec::new();
            for t in threads {
                probes.push(t.join().map_err(|_| Fail::new("exclusive/open-panicked", "a contending open panicked"))?);
            }
            for (mut c, out) in procs {
                let st = c.wait().expect("harness: wait probe");
                if !st.success() {
                    fail!("exclusive/open-panicked", "a contending process died: {st:?}");
                }
                let p: Probe = serde_json::from_slice(&std::fs::read(&out).expect("harness: probe out")).expect("harness: probe json");
                probes.push(p);
            }
            // the segment size persisted at creation never changes: contenders that pass another value
            // may also be refused by the settings check; contenders that pass it must win or see AlreadyOpened
            let persisted_n: u64 = std::fs::read(db.join("db_settings.json")).ok().and_then(|b| serde_json::from_slice::<serde_json::Value>(&b).ok()).and_then(|v| v["num_ops_per_wal"].as_u64()).unwrap_or(0);
            for p in &probes {
                if p.ok && p.n != persisted_n {
                    fail!("exclusive/settings-changed-under-owner", "an open with num_ops_per_wal={} succeeded, but the directory ends up recording {persisted_n}: a losing open rewrote the settings of a live owner", p.n);
                }
                let mismatch_ok = p.n != persisted_n && p.err.starts_with("Settings.ValidationFailed");
                if !p.ok && p.err != "AlreadyOpened" && !mismatch_ok {
                    fail!(format!("exclusive/wrong-error/{}", p.err), "a losing open (num_ops_per_wal={}, directory records {persisted_n}) failed with {} instead of AlreadyOpened", p.n, p.err);
                }
                if p.ok && plan.populated {
                    let want: Vec<String> = model.iter().map(|(k, h)| format!("{k}={}", &hexs(h)[..8])).collect();
                    if p.keys != want {
                        fail!("exclusive/state-changed", "a winning open saw keys {:?}, expected {want:?}", p.keys);
                    }
                }
            }
            let winners: Vec<&Probe> = probes.iter().filter(|p| p.ok).collect();
            for (i, a) in winners.iter().enumerate() {
                for b in &winners[i + 1..] {
                    if a.t1 < b.t2 && b.t1 < a.t2 {
                        fail!("exclusive/two-live-handles", "two opens of one directory were live at the same time: [{}..{}] and [{}..{}] (CLOCK_MONOTONIC ns)", a.t1, a.t2, b.t1, b.t2);
                    }
                }
            }
            if winners.is_empty() {
                // possible only as a harness artefact (see open_free); the final open decides
                m.class("race_nobody_won_transient");
            }
            // measured overlap of the open calls themselves
            let mut overlapped = false;
            for (i, a) in probes.iter().enumerate() {
                for b in &probes[i + 1..] {
                    if a.t0 < b.t1 && b.t0 < a.t1 {
                        overlapped = true;
                    }
                }
            }
            m.classn("race_losers", probes.iter().filter(|p| !p.ok).count() as u64);
            m.classn("race_winners", winners.len() as u64);
            if overlapped {
                m.class("open_calls_overlapped");
                m.nontrivial.push(id);
            }
            if plan.alt_n.iter().any(|a| *a) {
                m.class("race_with_mixed_settings");
            }
            if persisted_n == 100 || plan.populated {
                let _gate = gate_read();
                check_final(&db, &model, "after the race")?;
            } else {
                let _gate = gate_read();
                match Cas::<String>::open(&db, cfg_with(persisted_n.max(1))) {
                    Ok(_) => {}
                    Err(e) => fail!(format!("exclusive/open-after-release-fails/{}", err_path(&e)), "after the race: open with the recorded num_ops_per_wal={persisted_n} fails: {e:?}"),
                }
            }
        }
        Scenario::IdleOwnerLoser => {
            crate::proc::ensure_shim();
            {
                let _gate = gate_write();
                crate::proc::ensure_server();
            }
            let _gate = gate_read();
            let (owner, _) = open_free(&db, false).map_err(|e| Fail::new("open-err", format!("{e:?}")))?;
            let before = snapshot_tree(&db);
            let work = scratch.path.join("work");
            std::fs::create_dir_all(&work).expect("harness: mkdir");
            let script = Script { cfg: Cfg { kt: "String".into(), n: 100, asyn: false, scan: true, verify: false }, asyn: false, cleanup: false, ops: vec![], dump: false, pre_create: false };
            let run = run_worker(&db, &work, "loser", &script, ShimMode::Trace, Duration::from_secs(30));
            if run.out.open == "ok" {
                fail!("exclusive/two-live-handles", "a second process opened the directory while the owner was alive");
            }
            if run.out.open != "err:AlreadyOpened" {
                fail!(format!("exclusive/wrong-error/{}", run.out.open), "losing open failed with {} instead of AlreadyOpened ({})", run.out.open, run.out.open_detail);
            }
            for e in &run.trace {
                if e.mseq == 0 {
                    continue;
                }
                let harmless = match &e.ev {
                    Ev::Open { path, ret, .. } => *ret < 0 || path.ends_with("/LOCK"),
                    Ev::Mkdir { ret, .. } | Ev::Unlink { ret, .. } | Ev::Rmdir { ret, .. } | Ev::Rename { ret, .. } => *ret != 0,
                    Ev::Write { ret, .. } | Ev::Trunc { ret, .. } => *ret < 0,
                    _ => true,
                };
                if !harmless {
                    fail!("exclusive/loser-modified-files", "the losing open performed a mutating call: {:?}", e.ev);
                }
            }
            let after = snapshot_tree(&db);
            if after != before {
                let ch: Vec<&String> = after.keys().filter(|k| before.get(*k) != after.get(*k)).chain(before.keys().filter(|k| !after.contains_key(*k))).take(5).collect();
                fail!("exclusive/loser-modified-files", "the directory changed during a losing open: {ch:?}");
            }
            drop(owner);
            check_final(&db, &model, "after the idle owner was dropped")?;
            m.class("traced_loser");
            m.nontrivial.push(id);
        }
        Scenario::CloneOutlives { orphan_stats } => {
            let _gate = gate_read();
            let (owner, stats) = open_free(&db, true).map_err(|e| Fail::new("open-err", format!("{e:?}")))?;
            let clone = owner.clone();
            let expect_busy = |what: &str| -> R<()> {
                match Cas::<String>::open(&db, cfg()) {
                    Ok(_) => fail!("exclusive/two-live-handles", "open succeeded while {what} of the owner was still alive"),
                    Err(LibError::AlreadyOpened) => Ok(()),
                    Err(e) => fail!(format!("exclusive/wrong-error/{}", err_path(&e)), "open failed with {e:?} instead of AlreadyOpened while {what} was alive"),
                }
            };
            expect_busy("the handle")?;
            drop(owner);
            expect_busy("a clone and the OrphanStats")?;
            if *orphan_stats {
                drop(clone);
                expect_busy("the OrphanStats")?;
                drop(stats);
            } else {
                drop(stats);
                expect_busy("a clone")?;
                drop(clone);
            }
            check_final(&db, &model, "after the last clone/OrphanStats was dropped")?;
            m.class("clone_outlives");
            m.nontrivial.push(id);
        }
        Scenario::KillOwner => {
            let out = scratch.path.join("owner.json");
            let mut child = spawn_probe(&db, &out, 0, 60_000);
            let _gate = gate_read();
            // wait until the owner holds the directory: a second open must fail
            let mut held = false;
            for _ in 0..2000 {
                std::thread::sleep(Duration::from_millis(2));
                if db.join("LOCK").exists() {
                    match Cas::<String>::open(&db, cfg()) {
                        Err(LibError::AlreadyOpened) => {
                            held = true;
                            break;
                        }
                        Ok(c) => drop(c), // owner not there yet
                        Err(_) => {}
                    }
                }
            }
            if !held {
                let _ = child.kill();
                let _ = child.wait();
                m.discarded = true;
                return Ok(m);
            }
            // contenders while the owner is alive must all lose
            for (_, _, _) in plan.contenders.iter().take(2) {
                match Cas::<String>::open(&db, cfg()) {
                    Err(LibError::AlreadyOpened) => {}
                    Ok(_) => {
                        let _ = child.kill();
                        let _ = child.wait();
                        fail!("exclusive/two-live-handles", "open succeeded while another process owned the directory");
                    }
                    Err(e) => {
                        let _ = child.kill();
                        let _ = child.wait();
                        fail!(format!("exclusive/wrong-error/{}", err_path(&e)), "open failed with {e:?} instead of AlreadyOpened");
                    }
                }
            }
            unsafe { libc::kill(child.id() as i32, libc::SIGKILL) };
            let _ = child.wait();
            check_final(&db, &model, "after the owner process was killed")?;
            m.class("owner_killed");
            m.nontrivial.push(id);
        }
        Scenario::OwnerSpawnsChild { kill } => {
            let out = scratch.path.join("ownchild.pid");
            let exe = std::env::current_exe().expect("harness: current_exe");
            let mut owner = {
                let _gate = gate_write();
                std::process::Command::new(exe).arg("lockprobe").arg("ownchild").arg(&db).arg(&out).arg("20000").arg(if *kill { "1" } else { "0" }).stdin(std::process::Stdio::null()).stdout(std::process::Stdio::null()).stderr(std::process::Stdio::null()).spawn().expect("harness: spawn ownchild")
            };
            let _gate = gate_read();
            let mut pid: i32 = 0;
            for _ in 0..5000 {
                if let Ok(b) = std::fs::read(&out) {
                    pid = String::from_utf8_lossy(&b).trim().parse().unwrap_or(0);
                    break;
                }
                if let Ok(Some(_)) = owner.try_wait() {
                    if !out.exists() {
                        break;
                    }
                }
                std::thread::sleep(Duration::from_millis(2));
            }
            if pid <= 0 {
                let _ = owner.kill();
                let _ = owner.wait();
                m.discarded = true;
                return Ok(m);
            }
            let reap = |pid: i32| unsafe {
                libc::kill(pid, libc::SIGKILL);
            };
            if *kill {
                match Cas::<String>::open(&db, cfg()) {
                    Err(LibError::AlreadyOpened) => {}
                    Ok(_) => {
                        reap(pid);
                        let _ = owner.kill();
                        let _ = owner.wait();
                        fail!("exclusive/two-live-handles", "open succeeded while another process owned the directory");
                    }
                    Err(e) => {
                        reap(pid);
                        let _ = owner.kill();
                        let _ = owner.wait();
                        fail!(format!("exclusive/wrong-error/{}", err_path(&e)), "open failed with {e:?} instead of AlreadyOpened");
                    }
                }
                unsafe { libc::kill(owner.id() as i32, libc::SIGKILL) };
            }
            let _ = owner.wait();
            // the owner is gone (dropped its handle and exited, or was killed); the process it started lives on
            let alive = unsafe { libc::kill(pid, 0) } == 0;
            let r = check_final(&db, &model, if *kill { "after the owner process was killed (a child process it had started is still running)" } else { "after the owner dropped its handle and exited (a child process it had started is still running)" });
            reap(pid);
            r?;
            if alive {
                m.class("owner_child_outlives");
                m.nontrivial.push(id);
            }
        }
    }
    m.class(if plan.populated { "populated" } else { "fresh" });
    Ok(m)
}

pub fn run_c11(ctx: &Ctx, acc: &Mutex<Acc>) -> Option<Violation> {
    let cases = ctx.tier.scale(25, 8);
    let strat = || {
        (
            any::<bool>(),
            prop_oneof![6 => Just(Scenario::Race), 2 => Just(Scenario::IdleOwnerLoser), 2 => any::<bool>().prop_map(|o| Scenario::CloneOutlives { orphan_stats: o }), 1 => Just(Scenario::KillOwner), 2 => any::<bool>().prop_map(|k| Scenario::OwnerSpawnsChild { kill: k })],
            vec((prop::bool::weighted(0.4), prop_oneof![3 => 0u16..50, 2 => 0u16..2000], 0u8..20), 2..6),
            vec(prop::bool::weighted(0.3), 6),
        )
            .prop_map(|(populated, scenario, contenders, alt_n)| Plan { populated, scenario, contenders, alt_n })
    };
    campaign(ctx, acc, "race-plans", "C11", cases, 20, |_| strat(), c11_run)
}

pub fn replay_c11(case: serde_json::Value) -> R<CaseMeta> {
    c11_run(&serde_json::from_value(case).expect("harness: bad C11 case"))
}
