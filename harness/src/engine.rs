//! Campaign driver: sharded proptest runs, shrinking, replay files, known findings, evidence.

use std::cell::RefCell;
use std::collections::{BTreeMap, HashSet};
use std::fmt::Debug;
use std::panic::{catch_unwind, AssertUnwindSafe};
use std::path::PathBuf;
use std::sync::atomic::{AtomicBool, Ordering};
use std::sync::Mutex;
use std::time::Instant;

use proptest::strategy::Strategy;
use proptest::test_runner::{Config, RngAlgorithm, TestCaseError, TestError, TestRng, TestRunner};
use serde::Serialize;
use serde_json::{json, Value};

pub const SHARDS: usize = 16;
/// upper bound on concurrently running shards (stress parts lower it: their cases are multi-threaded themselves)
pub static PAR_LIMIT: std::sync::atomic::AtomicUsize = std::sync::atomic::AtomicUsize::new(usize::MAX);

#[derive(Clone, Copy, PartialEq, Eq, Debug)]
pub enum Tier {
    Quick,
    Thorough,
}
impl Tier {
    pub fn name(self) -> &'static str {
        match self {
            Tier::Quick => "quick",
            Tier::Thorough => "thorough",
        }
    }
    /// multiply a quick budget for the thorough tier
    pub fn scale(self, quick: u32, factor: u32) -> u32 {
        match self {
            Tier::Quick => quick,
            Tier::Thorough => quick * factor,
        }
    }
}

#[derive(Clone, Debug)]
pub struct Fail {
    pub sig: String,
    pub detail: String,
}
impl Fail {
    pub fn new(sig: impl Into<String>, detail: impl Into<String>) -> Self {
        Fail { sig: sig.into(), detail: detail.into() }
    }
}
pub type R<T> = Result<T, Fail>;

#[macro_export]
macro_rules! fail {
    ($sig:expr, $($arg:tt)*) => {
        return Err($crate::engine::Fail::new($sig, format!($($arg)*)))
    };
}

/// What one executed case contributed.
#[derive(Default, Debug)]
pub struct CaseMeta {
    /// number of evaluations (>=1); e.g. images checked
    pub evals: u64,
    /// ids of distinct non-trivial evaluations (already hashed together with the case)
    pub nontrivial: Vec<u64>,
    pub classes: Vec<(String, u64)>,
    /// failures that matched a known finding inside the case (sig) — the case itself passed otherwise
    pub known_hits: Vec<String>,
    /// extra counters (summed)
    pub counters: Vec<(String, u64)>,
    pub discarded: bool,
}
impl CaseMeta {
    pub fn class(&mut self, name: &str) {
        self.classes.push((name.to_string(), 1));
    }
    pub fn classn(&mut self, name: &str, n: u64) {
        if n > 0 {
            self.classes.push((name.to_string(), n));
        }
    }
    pub fn count(&mut self, name: &str, n: u64) {
        self.counters.push((name.to_string(), n));
    }
}

#[derive(Default)]
pub struct Acc {
    pub cases: u64,
    pub evaluations: u64,
    pub nontrivial: HashSet<u64>,
    pub classes: BTreeMap<String, u64>,
    pub counters: BTreeMap<String, u64>,
    pub samples: Vec<Value>,
    pub excluded_known: BTreeMap<String, u64>,
    pub discarded: u64,
    pub parts: Vec<String>,
    pub exhaustive: bool,
}

impl Acc {
    pub fn absorb(&mut self, m: &CaseMeta, sample: impl FnOnce() -> Value) {
        self.cases += 1;
        self.evaluations += m.evals.max(1);
        for id in &m.nontrivial {
            self.nontrivial.insert(*id);
        }
        for (c, n) in &m.classes {
            *self.classes.entry(c.clone()).or_default() += n;
        }
        for (c, n) in &m.counters {
            *self.counters.entry(c.clone()).or_default() += n;
        }
        for k in &m.known_hits {
            *self.excluded_known.entry(k.clone()).or_default() += 1;
        }
        if m.discarded {
            self.discarded += 1;
        }
        // keep a few samples, preferring non-trivial ones, spread over the run
        if !m.nontrivial.is_empty() && self.samples.len() < 5 && (self.cases % 7 == 1 || self.samples.is_empty()) {
            self.samples.push(sample());
        }
    }
}

#[derive(Clone, Debug, serde::Deserialize)]
pub struct KnownEntry {
    pub property: String,
    pub status: String,
    pub signature: String,
    pub what: String,
    #[serde(default)]
    pub commit: Option<String>,
}

pub struct Ctx {
    pub prop: &'static str,
    pub tier: Tier,
    pub seed: u64,
    pub level: &'static str,
    pub known: Vec<KnownEntry>,
    pub start: Instant,
    pub abort: AtomicBool,
    pub verif_dir: PathBuf,
}

impl Ctx {
    pub fn new(prop: &'static str, tier: Tier, seed: u64, level: &'static str) -> Self {
        let verif_dir = PathBuf::from(std::env::var("VERIF_DIR").unwrap_or_else(|_| "/verif".into()));
        let known = load_known(&verif_dir);
        Ctx { prop, tier, seed, level, known, start: Instant::now(), abort: AtomicBool::new(false), verif_dir }
    }
    /// Is this failure signature a listed (status=known) finding for this property?
    pub fn known_match(&self, sig: &str) -> Option<&KnownEntry> {
        self.known
            .iter()
            .find(|k| k.status == "known" && k.property == self.prop && sig.starts_with(&k.signature))
    }
}

pub fn load_known(verif_dir: &std::path::Path) -> Vec<KnownEntry> {
    let p = verif_dir.join("known_findings.json");
    match std::fs::read(&p) {
        Ok(b) => serde_json::from_slice(&b).expect("harness: known_findings.json malformed"),
        Err(_) => Vec::new(),
    }
}

#[derive(Clone, Debug)]
pub struct Violation {
    pub sig: String,
    pub detail: String,
    pub case: Value,
    pub engine: String,
}

// ---------------------------------------------------------------------------------------------
// panic capture

thread_local! {
    static LAST_PANIC: RefCell<Option<(String, String)>> = const { RefCell::new(None) };
}

pub fn install_panic_hook() {
    let verbose = std::env::var("VERIF_VERBOSE").is_ok();
    std::panic::set_hook(Box::new(move |info| {
        let msg = if let Some(s) = info.payload().downcast_ref::<&str>() {
            s.to_string()
        } else if let Some(s) = info.payload().downcast_ref::<String>() {
            s.clone()
        } else {
            "<non-string panic>".to_string()
        };
        let loc = info.location().map(|l| format!("{}:{}", l.file(), l.line())).unwrap_or_default();
        if verbose {
            eprintln!("[panic] {msg} at {loc}");
        }
        LAST_PANIC.with(|p| *p.borrow_mut() = Some((msg, loc)));
    }));
}

pub fn take_panic() -> (String, String) {
    LAST_PANIC.with(|p| p.borrow_mut().take()).unwrap_or_else(|| ("<unknown>".into(), String::new()))
}

/// A panic raised by the harness itself (bug or environment problem), not by the code under test.
pub fn is_harness_panic(msg: &str, loc: &str) -> bool {
    msg.to_ascii_lowercase().starts_with("harness") || loc.starts_with("src/")
}

pub struct HarnessError(pub String);

/// Run `f`, mapping a panic inside the code under test to a Fail, and a harness panic to exit 2.
pub fn guarded<T>(f: impl FnOnce() -> R<T>) -> R<T> {
    match catch_unwind(AssertUnwindSafe(f)) {
        Ok(r) => r,
        Err(_) => {
            let (msg, loc) = take_panic();
            if is_harness_panic(&msg, &loc) {
                eprintln!("HARNESS-ERROR: internal panic: {msg} at {loc}");
                crate::common::remove_own_scratch();
                std::process::exit(2);
            }
            let short: String = msg.chars().take(80).collect();
            let locfile = loc.rsplit('/').next().unwrap_or("").to_string();
            Err(Fail::new(format!("panic/{locfile}"), format!("panic in code under test: {short} at {loc}")))
        }
    }
}

// ---------------------------------------------------------------------------------------------
// campaign

fn seed_bytes(seed: u64, prop: &str, part: &str, shard: usize) -> [u8; 32] {
    let mut h = blake3::Hasher::new();
    h.update(&seed.to_le_bytes());
    h.update(prop.as_bytes());
    h.update(b"/");
    h.update(part.as_bytes());
    h.update(&(shard as u64).to_le_bytes());
    *h.finalize().as_bytes()
}

/// Run `cases` generated cases in each of SHARDS shards (in parallel). Returns the first violation
/// (shrunk) if any.
pub fn campaign<V, S, MK, T>(
    ctx: &Ctx,
    acc: &Mutex<Acc>,
    part: &str,
    engine: &str,
    cases: u32,
    max_shrink: u32,
    mk: MK,
    test: T,
) -> Option<Violation>
where
    V: Debug + Serialize + Clone + Send,
    S: Strategy<Value = V>,
    MK: Fn(usize) -> S + Sync,
    T: Fn(&V) -> R<CaseMeta> + Sync,
{
    acc.lock().unwrap().parts.push(format!("{part}:{engine}:{}x{}", SHARDS, cases));
    let found: Mutex<Option<Violation>> = Mutex::new(None);
    let threads = std::thread::available_parallelism().map(|n| n.get()).unwrap_or(4).min(SHARDS).min(PAR_LIMIT.load(Ordering::SeqCst)).max(1);
    let next = std::sync::atomic::AtomicUsize::new(0);
    std::thread::scope(|sc| {
        for _ in 0..threads {
            sc.spawn(|| loop {
                let shard = next.fetch_add(1, Ordering::SeqCst);
                if shard >= SHARDS {
                    break;
                }
                if ctx.abort.load(Ordering::SeqCst) {
                    continue;
                }
                let strat = mk(shard);
                let cfg = Config {
                    cases,
                    max_shrink_iters: max_shrink,
                    failure_persistence: None,
                    max_global_rejects: 1_000_000,
                    ..Config::default()
                };
                let rng = TestRng::from_seed(RngAlgorithm::ChaCha, &seed_bytes(ctx.seed, ctx.prop, part, shard));
                let mut runner = TestRunner::new_with_rng(cfg, rng);
                let failed = AtomicBool::new(false);
                let last_fail: Mutex<Option<Fail>> = Mutex::new(None);
                let res = runner.run(&strat, |v: V| {
                    let counting = !failed.load(Ordering::SeqCst);
                    if counting && ctx.abort.load(Ordering::SeqCst) {
                        return Ok(());
                    }
                    match guarded(|| test(&v)) {
                        Ok(meta) => {
                            if counting {
                                acc.lock().unwrap().absorb(&meta, || serde_json::to_value(&v).unwrap_or(Value::Null));
                            }
                            Ok(())
                        }
                        Err(f) => {
                            if ctx.known_match(&f.sig).is_some() {
                                // listed finding: excluded, search continues
                                if counting {
                                    let mut a = acc.lock().unwrap();
                                    a.cases += 1;
                                    a.evaluations += 1;
                                    *a.excluded_known.entry(f.sig.clone()).or_default() += 1;
                                }
                                return Ok(());
                            }
                            failed.store(true, Ordering::SeqCst);
                            let sig = f.sig.clone();
                            *last_fail.lock().unwrap() = Some(f);
                            Err(TestCaseError::fail(sig))
                        }
                    }
                });
                match res {
                    Ok(()) => {}
                    Err(TestError::Fail(_reason, value)) => {
                        // re-run the minimal case to get its own signature/detail
                        let f = match guarded(|| test(&value)) {
                            Err(f) if ctx.known_match(&f.sig).is_none() => f,
                            _ => last_fail.lock().unwrap().clone().unwrap_or_else(|| Fail::new("unknown", "")),
                        };
                        ctx.abort.store(true, Ordering::SeqCst);
                        let mut g = found.lock().unwrap();
                        if g.is_none() {
                            *g = Some(Violation {
                                sig: f.sig,
                                detail: f.detail,
                                case: serde_json::to_value(&value).unwrap_or(Value::Null),
                                engine: engine.to_string(),
                            });
                        }
                    }
                    Err(TestError::Abort(why)) => {
                        eprintln!("HARNESS-ERROR: proptest aborted: {why}");
                        crate::common::remove_own_scratch();
                        std::process::exit(2);
                    }
                }
            });
        }
    });
    found.into_inner().unwrap()
}

/// Deterministic enumeration (no proptest): run `test` over items in parallel.
pub fn enumerate<V, T>(ctx: &Ctx, acc: &Mutex<Acc>, part: &str, engine: &str, items: Vec<V>, test: T) -> Option<Violation>
where
    V: Debug + Serialize + Clone + Send + Sync,
    T: Fn(&V) -> R<CaseMeta> + Sync,
{
    acc.lock().unwrap().parts.push(format!("{part}:{engine}:enum{}", items.len()));
    let found: Mutex<Option<Violation>> = Mutex::new(None);
    let threads = std::thread::available_parallelism().map(|n| n.get()).unwrap_or(4).min(16);
    let next = std::sync::atomic::AtomicUsize::new(0);
    std::thread::scope(|sc| {
        for _ in 0..threads {
            sc.spawn(|| loop {
                let i = next.fetch_add(1, Ordering::SeqCst);
                if i >= items.len() || ctx.abort.load(Ordering::SeqCst) {
                    break;
                }
                let v = &items[i];
                match guarded(|| test(v)) {
                    Ok(meta) => acc.lock().unwrap().absorb(&meta, || serde_json::to_value(v).unwrap_or(Value::Null)),
                    Err(f) => {
                        if ctx.known_match(&f.sig).is_some() {
                            let mut a = acc.lock().unwrap();
                            a.cases += 1;
                            a.evaluations += 1;
                            *a.excluded_known.entry(f.sig.clone()).or_default() += 1;
                            continue;
                        }
                        ctx.abort.store(true, Ordering::SeqCst);
                        let mut g = found.lock().unwrap();
                        if g.is_none() {
                            *g = Some(Violation {
                                sig: f.sig,
                                detail: f.detail,
                                case: serde_json::to_value(v).unwrap_or(Value::Null),
                                engine: engine.to_string(),
                            });
                        }
                    }
                }
            });
        }
    });
    found.into_inner().unwrap()
}

// ---------------------------------------------------------------------------------------------
// finishing: evidence + replay + exit code

pub struct Finish<'a> {
    pub ctx: &'a Ctx,
    pub acc: Acc,
    pub rule: String,
    pub assumptions: Vec<String>,
    pub violations: Vec<Violation>,
    pub extra: BTreeMap<String, Value>,
}

pub fn write_replay(ctx: &Ctx, v: &Violation) -> PathBuf {
    let dir = ctx.verif_dir.join("replays").join(ctx.prop);
    let _ = std::fs::create_dir_all(&dir);
    let body = json!({
        "v": 1, "property": ctx.prop, "engine": v.engine, "seed": ctx.seed, "tier": ctx.tier.name(),
        "signature": v.sig, "detail": v.detail, "case": v.case,
    });
    let text = serde_json::to_string_pretty(&body).unwrap();
    let h = blake3::hash(serde_json::to_string(&v.case).unwrap().as_bytes()).to_hex();
    let path = dir.join(format!("{}-{}.json", v.engine, &h.as_str()[..16]));
    std::fs::write(&path, text).expect("harness: cannot write replay");
    path
}

impl<'a> Finish<'a> {
    /// Writes evidence, prints KNOWN-FINDING / VIOLATION lines, returns the exit code.
    pub fn done(mut self) -> i32 {
        let ctx = self.ctx;
        let wall = ctx.start.elapsed().as_secs_f64();
        // known findings seen in this run
        let mut known_lines = Vec::new();
        for (sig, n) in &self.acc.excluded_known {
            if let Some(k) = ctx.known_match(sig) {
                known_lines.push((k.signature.clone(), k.what.clone(), *n));
            }
        }
        known_lines.sort();
        known_lines.dedup_by(|a, b| a.0 == b.0);
        for (sig, what, _) in &known_lines {
            println!("KNOWN-FINDING: property={} {} [{}]", ctx.prop, what, sig);
        }
        let mut replay_paths = Vec::new();
        for v in &self.violations {
            let p = write_replay(ctx, v);
            println!("VIOLATION property={} replay={}", ctx.prop, p.display());
            println!("  signature: {}", v.sig);
            println!("  detail: {}", v.detail);
            replay_paths.push(p.display().to_string());
        }
        let distinct = self.acc.nontrivial.len() as u64;
        if self.acc.samples.is_empty() {
            self.acc.samples.push(json!("no non-trivial sample captured"));
        }
        let mut coverage = serde_json::Map::new();
        coverage.insert("evaluations".into(), json!(self.acc.evaluations));
        coverage.insert("cases".into(), json!(self.acc.cases));
        coverage.insert("distinct_nontrivial".into(), json!(distinct));
        coverage.insert("rule".into(), json!(self.rule));
        coverage.insert("samples".into(), Value::Array(self.acc.samples.clone()));
        coverage.insert("classes".into(), json!(self.acc.classes));
        coverage.insert("counters".into(), json!(self.acc.counters));
        coverage.insert("excluded_known".into(), json!(self.acc.excluded_known));
        coverage.insert("discarded_cases".into(), json!(self.acc.discarded));
        coverage.insert("parts".into(), json!(self.acc.parts));
        coverage.insert("replays".into(), json!(replay_paths));
        if self.acc.exhaustive {
            coverage.insert("exhaustive".into(), json!(true));
        }
        for (k, v) in &self.extra {
            coverage.insert(k.clone(), v.clone());
        }
        let ev = json!({
            "property_id": ctx.prop,
            "tier": ctx.tier.name(),
            "seed": ctx.seed,
            "level": ctx.level,
            "coverage": Value::Object(coverage),
            "assumptions": self.assumptions,
            "wall_s": (wall * 100.0).round() / 100.0,
            "violations": self.violations.len(),
        });
        let evdir = ctx.verif_dir.join("evidence");
        let _ = std::fs::create_dir_all(&evdir);
        std::fs::write(evdir.join(format!("{}.json", ctx.prop)), serde_json::to_string_pretty(&ev).unwrap())
            .expect("harness: cannot write evidence");
        println!(
            "{} {} seed={} cases={} evaluations={} distinct_nontrivial={} excluded_known={} violations={} wall={:.1}s",
            ctx.prop,
            ctx.tier.name(),
            ctx.seed,
            self.acc.cases,
            self.acc.evaluations,
            distinct,
            self.acc.excluded_known.values().sum::<u64>(),
            self.violations.len(),
            wall
        );
        if !self.violations.is_empty() {
            return 1;
        }
        if distinct < 2 {
            eprintln!("HARNESS-ERROR: fewer than 2 distinct non-trivial cases — generator is hollow");
            return 2;
        }
        0
    }
}
