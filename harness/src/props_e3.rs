//! E3-based parts: C04, C05, C15 and the concurrent parts of C06, C07, C08, C13.

use std::collections::BTreeSet;
use std::sync::Mutex;

use crate::engine::*;
use crate::gen::{self, E3Bias};
use crate::sched::{self, execute, exec_id, lock_cycle, meta_from, SLenses, SchedCase};

pub struct E3Part {
    pub name: &'static str,
    pub bias: E3Bias,
    pub lenses: SLenses,
    pub nontrivial: fn(&BTreeSet<&'static str>) -> bool,
    pub quick_cases: u32,
    pub thorough_factor: u32,
    pub rule: &'static str,
}

pub fn part_for(prop: &str) -> E3Part {
    let base = E3Bias::default();
    match prop {
        "C04" => E3Part {
            name: "sched-dangling",
            bias: E3Bias { orphan_ops: 1, plant_orphans: true, reads: 1, ..base },
            lenses: SLenses { dangling: true, ..Default::default() },
            nontrivial: |f| f.contains("switch_in_commit_window") || f.contains("unlink_during_commit_window"),
            quick_cases: 250,
            thorough_factor: 20,
            rule: "E3: generated concurrent programs (2-3 threads x 1-3 ops of put/remove/remove_range/checkpoint/orphan clean-up over keys {a,b,c} and contents {empty,1B,5B}, pre-existing possibly shared blobs, planted orphans, N in {1,2,3,100}) run on real threads under a deterministic scheduler that interleaves at every index-lock acquisition and at the commit/unlink filesystem steps (generated random-walk and PCT schedules). At EVERY scheduling step where the index is readable and at quiescence: each key visible in the index must resolve to an existing blob file with the recorded length and hash, holding a content committed for that key. non-trivial = a context switch while a put sits between its rename into cas/ and its index apply, or an unlink executed during such a window; distinct by (program, executed schedule)",
        },
        "C05" => E3Part {
            name: "sched-linearizable",
            bias: E3Bias { reads: 9, put: 8, remove: 4, rr: 2, checkpoint: 0, ..base },
            lenses: SLenses { linearizable: true, ..Default::default() },
            nontrivial: |f| f.contains("write_applied_during_read_window") || f.contains("switch_in_read_window"),
            quick_cases: 250,
            thorough_factor: 20,
            rule: "E3: programs with reader threads (get/get_size/get_range/get_reader+drain) and writer threads (put/remove/remove_range) on shared keys under generated schedules; oracle: no read returns Err, every returned byte string is a complete committed content (or its exact size/slice), and the history plus a final read of every key is linearizable (Wing-Gong search; remove = presence read + delete-if-present, remove_range = scan + delete of scanned keys still present); non-trivial = a writer's index apply / unlink ran while a reader sat between its index lookup and its blob open; distinct by (program, executed schedule)",
        },
        "C15" => E3Part {
            name: "sched-deadlock",
            bias: E3Bias { checkpoint: 5, put: 8, rr: 3, remove: 2, reads: 3, orphan_ops: 3, abort: 1, plant_orphans: true, ns: vec![1, 2], max_threads: 4, ..base },
            lenses: SLenses { deadlock: true, ..Default::default() },
            nontrivial: |f| f.contains("two_workers_at_locks"),
            quick_cases: 250,
            thorough_factor: 20,
            rule: "E3: programs dominated by explicit checkpoints, puts with rollover checkpoints (N in {1,2}), range removals, orphan clean-up, aborts and readers, 2-4 threads, under generated schedules; oracle (1): in every explored schedule every worker finishes — a state in which unfinished workers exist and none can be granted its lock is reported with the schedule as witness (a granted worker that neither yields nor finishes for 6 s, confirmed three times, counts as a stall); oracle (2): the lock-order graph harvested from all runs (edges held->wanted per site) has no self-acquisition, no inversion without a common gate lock and no 3-cycle; non-trivial = >=2 workers simultaneously holding or wanting index locks; distinct by (program, executed schedule)",
        },
        "C06" => E3Part {
            name: "sched-cashash",
            bias: E3Bias { contents: 4, ..base },
            lenses: SLenses { cashash: true, ..Default::default() },
            nontrivial: |f| f.contains("switch_in_commit_window") || f.contains("context_switch"),
            quick_cases: 60,
            thorough_factor: 20,
            rule: "E3: at every scheduling step of generated concurrent programs every file under cas/ must be at a canonical path and hash to it; non-trivial = schedule with a context switch; distinct by (program, executed schedule)",
        },
        "C07" => E3Part {
            name: "sched-exact-end",
            bias: E3Bias { remove: 5, rr: 3, ..base },
            lenses: SLenses { exact_end: true, ..Default::default() },
            nontrivial: |f| f.contains("context_switch"),
            quick_cases: 150,
            thorough_factor: 20,
            rule: "E3: after every thread of a generated error-free concurrent program finished: the files under cas/ are exactly the blobs referenced by the final index, staging/ is empty; non-trivial = schedule with a context switch; distinct by (program, executed schedule)",
        },
        "C08" => E3Part {
            name: "sched-orphan-cleanup",
            bias: E3Bias { orphan_ops: 6, put: 8, remove: 3, rr: 1, reads: 1, checkpoint: 0, plant_orphans: true, ..base },
            lenses: SLenses { orphan_safety: true, exact_end: true, ..Default::default() },
            nontrivial: |f| f.contains("switch_before_orphan_unlink") || f.contains("unlink_during_commit_window"),
            quick_cases: 100,
            thorough_factor: 20,
            rule: "E3: delete_orphans / quarantine_orphans / delete_orphan(h) on planted orphan blobs racing puts of the orphaned content and removes, under generated schedules; at every step and at the end every visible key resolves to an intact blob (a blob re-committed by a racing put survives clean-up), referenced blobs are all present at the end and no non-planted unreferenced file remains; non-trivial = a context switch between the clean-up's re-validation and its unlink/rename, or an unlink inside a commit window; distinct by (program, executed schedule)",
        },
        "C12" => E3Part {
            name: "sched-stats-end",
            bias: E3Bias { checkpoint: 6, put: 9, remove: 4, rr: 2, reads: 1, ..base },
            lenses: SLenses { stats_end: true, ..Default::default() },
            nontrivial: |f| f.contains("context_switch"),
            quick_cases: 150,
            thorough_factor: 20,
            rule: "E3: generated concurrent programs with many explicit checkpoints racing puts (shared contents), removes and range removals under generated and enumerated schedules; after every thread finished: known_blobs() equals the reference counts implied by the final index, stats().cas.unique_blobs / total_bytes equal the number / summed length of the distinct referenced contents (guard statistics and Cas::stats()), and every key's recorded size equals the length of its blob file; non-trivial = schedule with a context switch; distinct by (program, executed schedule)",
        },
        "C13" => E3Part {
            name: "sched-abort",
            bias: E3Bias { abort: 7, put: 7, reads: 3, remove: 2, rr: 0, checkpoint: 0, ..base },
            lenses: SLenses { linearizable: true, abort_end: true, dangling: true, ..Default::default() },
            nontrivial: |f| f.contains("context_switch"),
            quick_cases: 100,
            thorough_factor: 20,
            rule: "E3: transactions written and dropped without finish racing puts/reads on the same key and content under generated schedules; the history must be linearizable with the abandoned transactions as no-ops, no key may dangle, staging/ is empty at the end; non-trivial = schedule with a context switch; distinct by (program, executed schedule)",
        },
        other => panic!("harness: no E3 part for {other}"),
    }
}

fn harness_exit(msg: &str) -> ! {
    eprintln!("HARNESS-ERROR: {msg}");
    crate::common::remove_own_scratch();
    std::process::exit(2);
}

/// Set once a stall (a worker blocked inside the store on something the scheduler does not own) has
/// been confirmed: every further case, in particular every shrink candidate, is skipped — each
/// stalled run costs three watchdog periods and leaks its blocked threads, so the first confirmed
/// witness is reported as it is.
static STALL_SEEN: std::sync::atomic::AtomicBool = std::sync::atomic::AtomicBool::new(false);

pub fn e3_test<'a>(part: &'a E3Part, edges: &'a Mutex<BTreeSet<(u8, u8, &'static str)>>) -> impl Fn(&SchedCase) -> R<CaseMeta> + Sync + 'a {
    move |case: &SchedCase| {
        if STALL_SEEN.load(std::sync::atomic::Ordering::SeqCst) {
            return Ok(CaseMeta { evals: 0, discarded: true, ..Default::default() });
        }
        let mut stall = false;
        let res = execute(case, part.lenses, &mut stall);
        if stall {
            if let Err(f) = &res {
                if f.sig != "sched/stall" {
                    return Err(f.clone()); // exact deadlock witness
                }
            }
            // an un-hooked blocking wait or a very slow machine: confirm twice more
            let mut confirmed = 1;
            for _ in 0..2 {
                let mut s2 = false;
                let _ = execute(case, part.lenses, &mut s2);
                if s2 {
                    confirmed += 1;
                }
            }
            if confirmed == 3 {
                if part.lenses.deadlock {
                    if STALL_SEEN.swap(true, std::sync::atomic::Ordering::SeqCst) {
                        // another shard already reports a stall
                        return Ok(CaseMeta { evals: 0, discarded: true, ..Default::default() });
                    }
                    return Err(Fail::new("deadlock/stall", "a granted worker neither yielded nor finished within the watchdog period in three consecutive runs of the same schedule: it blocks inside the store on a lock that a parked worker holds (lock acquisition not visible to the scheduler)"));
                }
                harness_exit("a worker stalled three times in a check that does not decide deadlock-freedom");
            }
            harness_exit("a worker stalled intermittently");
        }
        let ex = res?;
        let mut m = meta_from(case, &ex);
        m.count("arrivals", ex.arrivals as u64);
        if part.lenses.deadlock {
            let mut g = edges.lock().unwrap();
            g.extend(ex.edges.iter().cloned());
            if let Some(c) = lock_cycle(&g) {
                return Err(Fail::new("deadlock/lock-order", c));
            }
            m.count("lock_edges_seen", ex.edges.len() as u64);
        }
        if (part.nontrivial)(&ex.flags) {
            m.nontrivial.push(exec_id(case, &ex));
        }
        Ok(m)
    }
}

/// A program together with the bound of the systematic schedule enumeration.
#[derive(Clone, Debug, serde::Serialize, serde::Deserialize)]
pub struct EnumCase {
    pub prog: sched::Prog,
    pub max_schedules: u32,
    /// restrict to one schedule (set in shrunk replays)
    pub only: Option<(Vec<u8>, Vec<u16>)>,
    #[serde(default)]
    pub only_switch: Option<(u8, Vec<(u16, u8)>)>,
}

fn perms(n: usize) -> Vec<Vec<u8>> {
    // priority vectors = permutations of 0..n (as priorities)
    let mut out = Vec::new();
    let mut a: Vec<u8> = (0..n as u8).collect();
    fn rec(k: usize, a: &mut Vec<u8>, out: &mut Vec<Vec<u8>>) {
        if k == a.len() {
            out.push(a.clone());
            return;
        }
        for i in k..a.len() {
            a.swap(k, i);
            rec(k + 1, a, out);
            a.swap(k, i);
        }
    }
    rec(0, &mut a, &mut out);
    out
}

/// Preemption-bounded systematic exploration of one program: every priority order x every set of
/// at most 2 preemptions at interesting yield points (bounded by `max_schedules`, evenly sampled).
pub fn enum_test<'a>(part: &'a E3Part, edges: &'a Mutex<BTreeSet<(u8, u8, &'static str)>>) -> impl Fn(&EnumCase) -> R<CaseMeta> + Sync + 'a {
    move |ec: &EnumCase| {
        let one = e3_test(part, edges);
        let nt = ec.prog.threads.len();
        let mut total = CaseMeta::default();
        let mut run = |prio: &Vec<u8>, preempt: &Vec<u16>| -> R<u16> {
            let case = SchedCase { prog: ec.prog.clone(), mode: sched::Mode::Points { prio: prio.clone(), preempt: preempt.clone(), all_points: part.lenses.deadlock }, choices: vec![] };
            let m = one(&case).map_err(|f| Fail::new(f.sig, format!("schedule prio={prio:?} preempt={preempt:?}: {}", f.detail)))?;
            total.evals += 1;
            total.nontrivial.extend(m.nontrivial);
            total.classes.extend(m.classes);
            let arr = m.counters.iter().find(|(k, _)| k == "arrivals").map(|(_, v)| *v as u16).unwrap_or(0);
            Ok(arr)
        };
        if let Some((prio, preempt)) = &ec.only {
            run(prio, preempt)?;
            return Ok(total);
        }
        let mut run_sw = |start: u8, switches: &Vec<(u16, u8)>, total: &mut CaseMeta| -> R<u16> {
            let case = SchedCase { prog: ec.prog.clone(), mode: sched::Mode::Switch { start, switches: switches.clone(), all_points: part.lenses.deadlock }, choices: vec![] };
            let m = one(&case).map_err(|f| Fail::new(f.sig, format!("schedule start=T{start} switches={switches:?}: {}", f.detail)))?;
            total.evals += 1;
            total.nontrivial.extend(m.nontrivial);
            total.classes.extend(m.classes);
            Ok(m.counters.iter().find(|(k, _)| k == "arrivals").map(|(_, v)| *v as u16).unwrap_or(0))
        };
        if let Some((start, switches)) = &ec.only_switch {
            let mut t = CaseMeta::default();
            run_sw(*start, switches, &mut t)?;
            return Ok(t);
        }
        let mut plist = perms(nt);
        if plist.len() > 6 {
            plist.truncate(6);
        }
        // schedules: for each priority order: no preemption, each single preemption, each pair
        let mut scheds: Vec<(Vec<u8>, Vec<u16>)> = Vec::new();
        for prio in &plist {
            let m = run(prio, &vec![])?.min(40);
            for i in 0..m {
                scheds.push((prio.clone(), vec![i]));
            }
            for i in 0..m {
                for j in (i + 1)..m {
                    scheds.push((prio.clone(), vec![i, j]));
                }
            }
        }
        let max = (ec.max_schedules as usize / 2).max(1);
        let stride = (scheds.len() + max - 1) / max.max(1);
        for (idx, (prio, preempt)) in scheds.iter().enumerate() {
            if stride > 1 && idx % stride != (hash_of_prog(&ec.prog) as usize) % stride {
                continue;
            }
            run(prio, preempt)?;
        }
        drop(run);
        // context-switch-bounded part: every start thread x every <=2 explicit switches (arrival -> target thread)
        let mut sw: Vec<(u8, Vec<(u16, u8)>)> = Vec::new();
        let mut total2 = CaseMeta::default();
        for start in 0..nt as u8 {
            let m = run_sw(start, &vec![], &mut total2)?.min(40);
            for i in 0..m {
                for t in 0..nt as u8 {
                    sw.push((start, vec![(i, t)]));
                }
            }
            for i in 0..m {
                for j in (i + 1)..m {
                    for t1 in 0..nt as u8 {
                        for t2 in 0..nt as u8 {
                            if t1 != t2 {
                                sw.push((start, vec![(i, t1), (j, t2)]));
                            }
                        }
                    }
                }
            }
        }
        let stride = (sw.len() + max - 1) / max.max(1);
        for (idx, (start, switches)) in sw.iter().enumerate() {
            if stride > 1 && idx % stride != (hash_of_prog(&ec.prog) as usize / 7) % stride {
                continue;
            }
            run_sw(*start, switches, &mut total2)?;
        }
        total.evals += total2.evals;
        total.nontrivial.extend(total2.nontrivial);
        total.classes.extend(total2.classes);
        total.class("enumerated_program");
        Ok(total)
    }
}

fn hash_of_prog(p: &sched::Prog) -> u64 {
    crate::common::hash_json(p)
}

pub fn run_e3_part(ctx: &Ctx, acc: &Mutex<Acc>, part: &E3Part) -> Option<Violation> {
    sched::install_hook();
    let cases = ctx.tier.scale(part.quick_cases, part.thorough_factor);
    let edges = Mutex::new(BTreeSet::new());
    let test = e3_test(part, &edges);
    let v = campaign(ctx, acc, part.name, "E3", cases, 300, |_shard| gen::sched_case(&part.bias), test);
    let v = match v {
        Some(v) => Some(v),
        None => {
            // systematic part: generated programs x enumerated <=2-preemption schedules
            let progs = ctx.tier.scale((part.quick_cases / 40).max(3), 10);
            let max_schedules = if ctx.tier == Tier::Thorough { 3000 } else { 240 };
            let et = enum_test(part, &edges);
            campaign(ctx, acc, &format!("{}-enum", part.name), "E3E", progs, 40, |_shard| {
                use proptest::strategy::Strategy;
                gen::prog(&part.bias).prop_map(move |prog| EnumCase { prog, max_schedules, only: None, only_switch: None })
            }, et)
        }
    };
    if part.lenses.deadlock {
        let g = edges.lock().unwrap();
        let mut a = acc.lock().unwrap();
        a.counters.insert("distinct_lock_order_edges".into(), g.len() as u64);
        let list: Vec<String> = g.iter().map(|(x, y, s)| format!("{x}->{y}@{s}")).collect();
        a.samples.push(serde_json::json!({ "lock_order_edges": list }));
    }
    v
}

pub fn replay_e3_enum(prop: &str, case: serde_json::Value) -> R<CaseMeta> {
    let case: EnumCase = serde_json::from_value(case).expect("harness: bad E3E replay case");
    let part = part_for(prop);
    let edges = Mutex::new(BTreeSet::new());
    let t = enum_test(&part, &edges);
    t(&case)
}

pub fn replay_e3(prop: &str, case: serde_json::Value) -> R<CaseMeta> {
    let case: SchedCase = serde_json::from_value(case).expect("harness: bad E3 replay case");
    let part = part_for(prop);
    let edges = Mutex::new(BTreeSet::new());
    let t = e3_test(&part, &edges);
    t(&case)
}

// ---------------------------------------------------------------------------------------------
// free-running stress parts

use crate::stress::{run_mixed, run_register, run_shared, StressCase, HANG_SIG};

pub const STRESS_REGISTER_RULE: &str = "free-running stress (no scheduler): 2-4 writer threads, each the only writer of its key, overwrite (or alternately put/remove) it with self-describing payloads of varying size while 4-8 reader threads hammer get/get_reader/get_range on those keys; oracle: no call fails, every returned byte string is one complete committed payload of that key, and every read obeys the atomic-register condition (it observes a version between the last write that returned before the read began and the last write that began before the read ended; timestamps are taken outside the calls, which only widens the intervals), final state = last write. This reaches code between the scheduler's yield points. non-trivial = run in which >=1 read overlapped a write (measured); distinct by (parameters, overlap count)";

pub const STRESS_SHARED_RULE: &str = "free-running stress: 2-6 threads issue random put/remove/remove_range/checkpoint over 3 keys and 3 contents; judged at quiescence (index->blob resolution / exact listing)";

fn stress_strategy(big: bool) -> proptest::strategy::BoxedStrategy<StressCase> {
    use proptest::prelude::*;
    let (w, r) = if big { (600u16..1500, 2000u16..6000) } else { (100u16..300, 400u16..1200) };
    (prop_oneof![Just(1u64), Just(2u64), Just(100u64)], 2u8..5, 3u8..9, w, r, any::<bool>(), any::<u64>(), prop::bool::weighted(0.7))
        .prop_map(|(n, writers, readers, writes, reads, removes, seed, hot)| StressCase { n, writers, readers, writes, reads, removes, seed, hot, asyn: seed % 2 == 0 })
        .boxed()
}

fn hot_strategy(big: bool) -> proptest::strategy::BoxedStrategy<StressCase> {
    use proptest::prelude::*;
    let (w, r) = if big { (10000u16..20000, 30000u16..60000) } else { (3000u16..6000, 10000u16..20000) };
    (prop_oneof![1 => Just(3u64), 1 => Just(100u64), 3 => Just(10_000u64)], 3u8..5, 6u8..9, w, r, prop::bool::weighted(0.2), any::<u64>(), prop::bool::weighted(0.7))
        .prop_map(|(n, writers, readers, writes, reads, removes, seed, asyn)| StressCase { n, writers, readers, writes, reads, removes, seed, hot: true, asyn })
        .boxed()
}

pub fn run_stress_register(ctx: &Ctx, acc: &Mutex<Acc>) -> Option<Violation> {
    let cases = ctx.tier.scale(1, 8);
    let big = ctx.tier == Tier::Thorough;
    // (a) many writers and readers hammering ONE key with small payloads
    PAR_LIMIT.store(2, std::sync::atomic::Ordering::SeqCst);
    sched::remove_hook();
    let hot_cases = match ctx.tier { Tier::Quick => 1, Tier::Thorough => 4 };
    let v = hang_is_inconclusive(campaign(ctx, acc, "stress-hot-key", "STRESS-R", hot_cases, 0, |_| hot_strategy(big), run_register));
    PAR_LIMIT.store(usize::MAX, std::sync::atomic::Ordering::SeqCst);
    if v.is_some() {
        return v;
    }
    // the cases are multi-threaded themselves: run at most two at a time so that their threads really run in parallel
    PAR_LIMIT.store(2, std::sync::atomic::Ordering::SeqCst);
    sched::remove_hook();
    let v = hang_is_inconclusive(campaign(ctx, acc, "stress-register", "STRESS-R", cases, 0, |_| stress_strategy(big), run_register));
    PAR_LIMIT.store(usize::MAX, std::sync::atomic::Ordering::SeqCst);
    v
}

pub fn run_stress_shared(ctx: &Ctx, acc: &Mutex<Acc>, dangling: bool, listing: bool) -> Option<Violation> {
    let cases = ctx.tier.scale(1, 10);
    let big = ctx.tier == Tier::Thorough;
    PAR_LIMIT.store(3, std::sync::atomic::Ordering::SeqCst);
    sched::remove_hook();
    let v = hang_is_inconclusive(campaign(ctx, acc, "stress-shared", if listing { "STRESS-L" } else { "STRESS-D" }, cases, 0, |_| stress_strategy(big), move |c| run_shared(c, dangling, listing)));
    PAR_LIMIT.store(usize::MAX, std::sync::atomic::Ordering::SeqCst);
    v
}

pub const STRESS_MIXED_RULE: &str = "free-running stress: 2-6 writer threads (put/remove/remove_range/explicit checkpoint over 3 keys and 3 contents, N in {1,2,100} so rollover checkpoints are frequent) and 1-8 reader threads (get/get_range/get_size on the same keys) run really in parallel; oracle: every thread returns within a 60 s watchdog (the work takes well under a second); this reaches blocking that the deterministic scheduler cannot produce, e.g. a second shared acquisition of the non-re-entrant state lock behind a queued writer";

pub fn run_stress_mixed(ctx: &Ctx, acc: &Mutex<Acc>) -> Option<Violation> {
    let cases = ctx.tier.scale(1, 8);
    let big = ctx.tier == Tier::Thorough;
    PAR_LIMIT.store(2, std::sync::atomic::Ordering::SeqCst);
    sched::remove_hook();
    let v = campaign(ctx, acc, "stress-mixed", "STRESS-M", cases, 0, |_| stress_strategy(big), run_mixed);
    PAR_LIMIT.store(usize::MAX, std::sync::atomic::Ordering::SeqCst);
    v
}

/// A hang inside a stress part of a check that does not decide deadlock-freedom is inconclusive.
fn hang_is_inconclusive(v: Option<Violation>) -> Option<Violation> {
    if let Some(v) = &v {
        if v.sig == HANG_SIG {
            eprintln!("HARNESS-ERROR: a free-running stress case hung (see C15): {}", v.detail);
            crate::common::remove_own_scratch();
            std::process::exit(2);
        }
    }
    v
}

pub fn replay_stress(engine: &str, case: serde_json::Value) -> R<CaseMeta> {
    let case: StressCase = serde_json::from_value(case).expect("harness: bad stress case");
    // a stress run is not deterministic: repeat it a few times
    let mut last = Ok(CaseMeta::default());
    for _ in 0..5 {
        last = match engine {
            "STRESS-M" => run_mixed(&case),
            "STRESS-R" => run_register(&case),
            "STRESS-L" => run_shared(&case, false, true),
            _ => run_shared(&case, true, false),
        };
        if last.is_err() {
            return last;
        }
    }
    last
}
