//! E3-based parts: C04, C05, C15 and the concurrent parts of C06, C07, C08, C13.

use std::collections::BTreeSet;
use std::sync::Mutex;

use crate::engine::*;
use crate::gen::{self, E3Bias};
use crate::sched::{self, execute, exec_id, lock_cycle, meta_from, SLenses, SchedCase};

pub struct E3Part {
    pub name: &'static str,
    pub bias: E3Bias,
    pub lenses: SLenses,
    pub nontrivial: fn(&BTreeSet<&'static str>) -> bool,
    pub quick_cases: u32,
    pub thorough_factor: u32,
    pub rule: &'static str,
}

pub fn part_for(prop: &str) -> E3Part {
    let base = E3Bias::default();
    match prop {
        "C04" => E3Part {
            name: "sched-dangling",
            bias: E3Bias { orphan_ops: 1, plant_orphans: true, reads: 1, ..base },
            lenses: SLenses { dangling: true, ..Default::default() },
            nontrivial: |f| f.contains("switch_in_commit_window") || f.contains("unlink_during_commit_window"),
            quick_cases: 250,
            thorough_factor: 20,
            rule: "E3: generated concurrent programs (2-3 threads x 1-3 ops of put/remove/remove_range/checkpoint/orphan clean-up over keys {a,b,c} and contents {empty,1B,5B}, pre-existing possibly shared blobs, planted orphans, N in {1,2,3,100}) run on real threads under a deterministic scheduler that interleaves at every index-lock acquisition and at the commit/unlink filesystem steps (generated random-walk and PCT schedules). At EVERY scheduling step where the index is readable and at quiescence: each key visible in the index must resolve to an existing blob file with the recorded length and hash, holding a content committed for that key. non-trivial = a context switch while a put sits between its rename into cas/ and its index apply, or an unlink executed during such a window; distinct by (program, executed schedule)",
        },
        "C05" => E3Part {
            name: "sched-linearizable",
            bias: E3Bias { reads: 9, put: 8, remove: 4, rr: 2, checkpoint: 0, ..base },
            lenses: SLenses { linearizable: true, ..Default::default() },
            nontrivial: |f| f.contains("write_applied_during_read_window") || f.contains("switch_in_read_window"),
            quick_cases: 250,
            thorough_factor: 20,
            rule: "E3: programs with reader threads (get/get_size/get_range/get_reader+drain) and writer threads (put/remove/remove_range) on shared keys under generated schedules; oracle: no read returns Err, every returned byte string is a complete committed content (or its exact size/slice), and the history plus a final read of every key is linearizable (Wing-Gong search; remove = presence read + delete-if-present, remove_range = scan + delete of scanned keys still present); non-trivial = a writer's index apply / unlink ran while a reader sat between its index lookup and its blob open; distinct by (program, executed schedule)",
        },
        "C15" => E3Part {
            name: "sched-deadlock",
            bias: E3Bias { checkpoint: 5, put: 8, rr: 3, remove: 2, reads: 3, orphan_ops: 3, abort: 1, plant_orphans: true, ns: vec![1, 2], max_threads: 4, ..base },
            lenses: SLenses { deadlock: true, ..Default::default() },
            nontrivial: |f| f.contains("two_workers_at_locks"),
            quick_cases: 250,
            thorough_factor: 20,
            rule: "E3: programs dominated by explicit checkpoints, puts with rollover checkpoints (N in {1,2}), range removals, orphan clean-up, aborts and readers, 2-4 threads, under generated schedules; oracle (1): in every explored schedule every worker finishes — a state in which unfinished workers exist and none can be granted its lock is reported with the schedule as witness (a granted worker that neither yields nor finishes for 20 s, confirmed three times, counts as a stall); oracle (2): the lock-order graph harvested from all runs (edges held->wanted per site) has no self-acquisition, no inversion without a common gate lock and no 3-cycle; non-trivial = >=2 workers simultaneously holding or wanting index locks; distinct by (program, executed schedule)",
        },
        "C06" => E3Part {
            name: "sched-cashash",
            bias: E3Bias { contents: 4, ..base },
            lenses: SLenses { cashash: true, ..Default::default() },
            nontrivial: |f| f.contains("switch_in_commit_window") || f.contains("context_switch"),
            quick_cases: 60,
            thorough_factor: 20,
            rule: "E3: at every scheduling step of generated concurrent programs every file under cas/ must be at a canonical path and hash to it; non-trivial = schedule with a context switch; distinct by (program, executed schedule)",
        },
        "C07" => E3Part {
            name: "sched-exact-end",
            bias: E3Bias { remove: 5, rr: 3, ..base },
            lenses: SLenses { exact_end: true, ..Default::default() },
            nontrivial: |f| f.contains("context_switch"),
            quick_cases: 150,
            thorough_factor: 20,
            rule: "E3: after every thread of a generated error-free concurrent program finished: the files under cas/ are exactly the blobs referenced by the final index, staging/ is empty; non-trivial = schedule with a context switch; distinct by (program, executed schedule)",
        },
        "C08" => E3Part {
            name: "sched-orphan-cleanup",
            bias: E3Bias { orphan_ops: 6, put: 8, remove: 3, rr: 1, reads: 1, checkpoint: 0, plant_orphans: true, ..base },
            lenses: SLenses { orphan_safety: true, exact_end: true, ..Default::default() },
            nontrivial: |f| f.contains("switch_before_orphan_unlink") || f.contains("unlink_during_commit_window"),
            quick_cases: 100,
            thorough_factor: 20,
            rule: "E3: delete_orphans / quarantine_orphans / delete_orphan(h) on planted orphan blobs racing puts of the orphaned content and removes, under generated schedules; at every step and at the end every visible key resolves to an intact blob (a blob re-committed by a racing put survives clean-up), referenced blobs are all present at the end and no non-planted unreferenced file remains; non-trivial = a context switch between the clean-up's re-validation and its unlink/rename, or an unlink inside a commit window; distinct by (program, executed schedule)",
        },
        "C13" => E3Part {
            name: "sched-abort",
            bias: E3Bias { abort: 7, put: 7, reads: 3, remove: 2, rr: 0, checkpoint: 0, ..base },
            lenses: SLenses { linearizable: true, abort_end: true, dangling: true, ..Default::default() },
            nontrivial: |f| f.contains("context_switch"),
            quick_cases: 100,
            thorough_factor: 20,
            rule: "E3: transactions written and dropped without finish racing puts/reads on the same key and content under generated schedules; the history must be linearizable with the abandoned transactions as no-ops, no key may dangle, staging/ is empty at the end; non-trivial = schedule with a context switch; distinct by (program, executed schedule)",
        },
        other => panic!("harness: no E3 part for {other}"),
    }
}

fn harness_exit(msg: &str) -> ! {
    eprintln!("HARNESS-ERROR: {msg}");
    crate::common::remove_own_scratch();
    std::process::exit(2);
}

pub fn e3_test<'a>(part: &'a E3Part, edges: &'a Mutex<BTreeSet<(u8, u8, &'static str)>>) -> impl Fn(&SchedCase) -> R<CaseMeta> + Sync + 'a {
    move |case: &SchedCase| {
        let mut stall = false;
        let res = execute(case, part.lenses, &mut stall);
        if stall {
            if let Err(f) = &res {
                if f.sig != "sched/stall" {
                    return Err(f.clone()); // exact deadlock witness
                }
            }
            // an un-hooked blocking wait or a very slow machine: confirm twice more
            let mut confirmed = 1;
            for _ in 0..2 {
                let mut s2 = false;
                let _ = execute(case, part.lenses, &mut s2);
                if s2 {
                    confirmed += 1;
                }
            }
            if confirmed == 3 {
                if part.lenses.deadlock {
                    return Err(Fail::new("deadlock/stall", "a granted worker neither yielded nor finished within 20 s in three consecutive runs of the same schedule"));
                }
                harness_exit("a worker stalled three times in a check that does not decide deadlock-freedom");
            }
            harness_exit("a worker stalled intermittently");
        }
        let ex = res?;
        let mut m = meta_from(case, &ex);
        if part.lenses.deadlock {
            let mut g = edges.lock().unwrap();
            g.extend(ex.edges.iter().cloned());
            if let Some(c) = lock_cycle(&g) {
                return Err(Fail::new("deadlock/lock-order", c));
            }
            m.count("lock_edges_seen", ex.edges.len() as u64);
        }
        if (part.nontrivial)(&ex.flags) {
            m.nontrivial.push(exec_id(case, &ex));
        }
        Ok(m)
    }
}

pub fn run_e3_part(ctx: &Ctx, acc: &Mutex<Acc>, part: &E3Part) -> Option<Violation> {
    sched::install_hook();
    let cases = ctx.tier.scale(part.quick_cases, part.thorough_factor);
    let edges = Mutex::new(BTreeSet::new());
    let test = e3_test(part, &edges);
    let v = campaign(ctx, acc, part.name, "E3", cases, 300, |_shard| gen::sched_case(&part.bias), test);
    if part.lenses.deadlock {
        let g = edges.lock().unwrap();
        let mut a = acc.lock().unwrap();
        a.counters.insert("distinct_lock_order_edges".into(), g.len() as u64);
        let list: Vec<String> = g.iter().map(|(x, y, s)| format!("{x}->{y}@{s}")).collect();
        a.samples.push(serde_json::json!({ "lock_order_edges": list }));
    }
    v
}

pub fn replay_e3(prop: &str, case: serde_json::Value) -> R<CaseMeta> {
    let case: SchedCase = serde_json::from_value(case).expect("harness: bad E3 replay case");
    let part = part_for(prop);
    let edges = Mutex::new(BTreeSet::new());
    let t = e3_test(&part, &edges);
    t(&case)
}
