//! E3 — deterministic scheduler over real threads (uses the `verif` yield points in /repo).
//!
//! Exactly one worker runs between two yield points; the schedule (generated) picks which enabled
//! worker continues. A worker that wants a lock is enabled only if `lock_mask` says the lock is
//! grantable, so a worker never blocks inside the store while others are parked, and
//! "unfinished workers exist, none enabled" is an exact deadlock witness.

use std::cell::RefCell;
use std::collections::{BTreeMap, BTreeSet};
use std::io::Read;
use std::ops::Bound;
use std::sync::{Arc, Condvar, Mutex};
use std::time::Duration;

use cassadilia::verif::{HELD_INTENTS, HELD_STATE_ANY, HELD_STATE_EXCL, HELD_WAL, WANT_INTENTS, WANT_NONE, WANT_STATE_R, WANT_STATE_W, WANT_WAL};
use cassadilia::{BlobHash, Cas, OrphanStats};
use serde::{Deserialize, Serialize};

use crate::common::*;
use crate::engine::{CaseMeta, Fail, R};
use crate::fail;
use crate::linz;
use crate::proc::err_path;

pub const KEYS: [&str; 3] = ["a", "b", "c"];
/// content ids used by concurrent programs -> pool content index (0 = empty, 1 byte, 5 bytes, 4096 bytes)
pub const CONTENTS: [usize; 4] = [0, 1, 2, 3];

#[derive(Clone, Debug, Serialize, Deserialize, PartialEq, Eq)]
pub enum COp {
    Put { k: u8, c: u8 },
    Remove { k: u8 },
    /// remove_range over keys[lo..=hi]
    RemoveRange { lo: u8, hi: u8 },
    Get { k: u8 },
    GetSize { k: u8 },
    GetRange { k: u8, s: u8, e: u8 },
    GetReader { k: u8 },
    Checkpoint,
    Abort { k: u8, c: u8 },
    DeleteOrphans,
    QuarantineOrphans,
    DeleteOrphan { c: u8 },
}

#[derive(Clone, Debug, Serialize, Deserialize)]
pub struct Prog {
    pub n: u64,
    pub init: Vec<(u8, u8)>,
    /// contents planted as unreferenced blob files before the run
    pub orphans: Vec<u8>,
    pub threads: Vec<Vec<COp>>,
}

#[derive(Clone, Debug, Serialize, Deserialize)]
pub enum Mode {
    Walk,
    /// PCT-style: thread priorities, and step numbers at which the running thread drops to lowest priority
    Pct { prio: Vec<u8>, changes: Vec<u8> },
    /// exact replay of an executed schedule (thread id per step)
    Exact,
    /// priority schedule with preemptions only at *interesting* yield points: the running thread
    /// keeps running (highest priority first) unless its k-th arrival at an interesting point is
    /// listed in `preempt`, in which case it drops to the lowest priority
    Points { prio: Vec<u8>, preempt: Vec<u16>, all_points: bool },
    /// context-switch-bounded schedule: thread `start` runs first; at the listed arrivals at
    /// interesting points the running thread is preempted in favour of the given thread; when the
    /// running thread finishes or blocks, the most recently preempted thread resumes (LIFO)
    Switch { start: u8, switches: Vec<(u16, u8)>, all_points: bool },
}

#[derive(Clone, Debug, Serialize, Deserialize)]
pub struct SchedCase {
    pub prog: Prog,
    pub mode: Mode,
    pub choices: Vec<u16>,
}

#[derive(Clone, Copy, Default, Debug)]
pub struct SLenses {
    pub dangling: bool,
    pub linearizable: bool,
    pub deadlock: bool,
    pub cashash: bool,
    pub exact_end: bool,
    pub orphan_safety: bool,
    pub abort_end: bool,
    /// at quiescence: refcounts, known blobs and CAS statistics equal what the final index implies
    pub stats_end: bool,
}

#[derive(Clone, Debug)]
pub enum Res {
    Unit,
    Bool(bool),
    Count(usize),
    Bytes(Option<Vec<u8>>),
    Size(Option<u64>),
    Err(String),
    Panic(String),
}

#[derive(Clone, Debug)]
pub struct CallRec {
    pub thread: usize,
    pub op: COp,
    pub inv: u64,
    pub res_t: u64,
    pub res: Res,
}

// ---------------------------------------------------------------------------------------------
// session

#[derive(Clone, Debug, PartialEq)]
enum WState {
    Running,
    At { name: &'static str, want: u8 },
    Done,
}

struct SState {
    workers: Vec<WState>,
    granted: Option<usize>,
    clock: u64,
    calls: Vec<CallRec>,
    open_call: Vec<Option<usize>>,
}

pub struct Sess {
    mu: Mutex<SState>,
    cv_sched: Condvar,
    cv_workers: Vec<Condvar>,
}

thread_local! {
    static CUR: RefCell<Option<(Arc<Sess>, usize)>> = const { RefCell::new(None) };
}

static HOOK_LOCK: Mutex<bool> = Mutex::new(false);

pub fn install_hook() {
    let mut g = HOOK_LOCK.lock().unwrap();
    if !*g {
        cassadilia::verif::set_hook(Some(Arc::new(|name: &'static str, want: u8| {
            let cur = CUR.with(|c| c.borrow().clone());
            if let Some((sess, id)) = cur {
                sess.park(id, name, want);
            }
        })));
        *g = true;
    }
}

/// Free-running stress parts run without any hook: even a pass-through hook costs a shared lock
/// and an Arc clone per yield point, which perturbs exactly the timing windows they look for.
pub fn remove_hook() {
    let mut g = HOOK_LOCK.lock().unwrap();
    cassadilia::verif::set_hook(None);
    *g = false;
}

impl Sess {
    fn park(&self, id: usize, name: &'static str, want: u8) {
        let mut g = self.mu.lock().unwrap();
        g.workers[id] = WState::At { name, want };
        self.cv_sched.notify_all();
        while g.granted != Some(id) {
            g = self.cv_workers[id].wait(g).unwrap();
        }
        g.granted = None;
    }
    fn tick(&self) -> u64 {
        let mut g = self.mu.lock().unwrap();
        g.clock += 1;
        g.clock
    }
}

fn grantable(want: u8, mask: u8) -> bool {
    match want {
        WANT_NONE => true,
        WANT_INTENTS => mask & HELD_INTENTS == 0,
        WANT_WAL => mask & HELD_WAL == 0,
        WANT_STATE_R => mask & HELD_STATE_EXCL == 0,
        WANT_STATE_W => mask & HELD_STATE_ANY == 0,
        _ => true,
    }
}

fn key(k: u8) -> String {
    KEYS[(k as usize).min(KEYS.len() - 1)].to_string()
}
pub fn content(c: u8) -> Bytes {
    pool_content(CONTENTS[(c as usize).min(CONTENTS.len() - 1)])
}
fn content_id(b: &[u8]) -> Option<u8> {
    (0..CONTENTS.len() as u8).find(|c| content(*c)[..] == *b)
}

fn exec_op(cas: &Cas<String>, stats: &Option<Arc<OrphanStats<String>>>, qdir: &std::path::Path, op: &COp) -> Res {
    let lib = |e: cassadilia::LibError| Res::Err(err_path(&e));
    match op {
        COp::Put { k, c } => {
            let r = (|| -> Result<(), cassadilia::LibError> {
                let mut tx = cas.put(key(*k))?;
                tx.write(&content(*c)).map_err(|e| cassadilia::LibError::Io { operation: cassadilia::LibIoOperation::WriteStagingFile, path: None, source: std::io::Error::other(format!("{e:?}")) })?;
                tx.finish()
            })();
            match r {
                Ok(()) => Res::Unit,
                Err(e) => lib(e),
            }
        }
        COp::Abort { k, c } => match cas.put(key(*k)) {
            Ok(mut tx) => {
                let _ = tx.write(&content(*c));
                drop(tx);
                Res::Unit
            }
            Err(e) => lib(e),
        },
        COp::Remove { k } => cas.remove(&key(*k)).map(Res::Bool).unwrap_or_else(lib),
        COp::RemoveRange { lo, hi } => {
            let (lo, hi) = if lo <= hi { (*lo, *hi) } else { (*hi, *lo) };
            cas.remove_range((Bound::Included(key(lo)), Bound::Included(key(hi)))).map(Res::Count).unwrap_or_else(lib)
        }
        COp::Get { k } => cas.get(&key(*k)).map(|o| Res::Bytes(o.map(|b| b.to_vec()))).unwrap_or_else(lib),
        COp::GetSize { k } => cas.get_size(&key(*k)).map(Res::Size).unwrap_or_else(lib),
        COp::GetRange { k, s, e } => {
            let (s, e) = if s <= e { (*s, *e) } else { (*e, *s) };
            cas.get_range(&key(*k), s as u64, e as u64).map(|o| Res::Bytes(o.map(|b| b.to_vec()))).unwrap_or_else(lib)
        }
        COp::GetReader { k } => match cas.get_reader(&key(*k)) {
            Ok(None) => Res::Bytes(None),
            Ok(Some(mut r)) => {
                let mut b = Vec::new();
                match r.read_to_end(&mut b) {
                    Ok(_) => Res::Bytes(Some(b)),
                    Err(e) => Res::Err(format!("reader-io:{e}")),
                }
            }
            Err(e) => lib(e),
        },
        COp::Checkpoint => cas.checkpoint().map(|_| Res::Unit).unwrap_or_else(lib),
        COp::DeleteOrphans => match stats {
            Some(s) => s.delete_orphans().map(|r| if r.errors.is_empty() { Res::Unit } else { Res::Err(format!("cleanup-errors:{:?}", r.errors)) }).unwrap_or_else(lib),
            None => Res::Unit,
        },
        COp::QuarantineOrphans => match stats {
            Some(s) => s.quarantine_orphans(qdir).map(|r| if r.errors.is_empty() { Res::Unit } else { Res::Err(format!("cleanup-errors:{:?}", r.errors)) }).unwrap_or_else(lib),
            None => Res::Unit,
        },
        COp::DeleteOrphan { c } => match stats {
            Some(s) => s.delete_orphan(&BlobHash::from_bytes(b3(&content(*c)))).map(Res::Bool).unwrap_or_else(lib),
            None => Res::Unit,
        },
    }
}

pub fn interesting(name: &str) -> bool {
    matches!(
        name,
        "op.begin"
            | "commit.before_register"
            | "commit.before_rename"
            | "commit.before_apply"
            | "apply_put.applied"
            | "apply_put.delete"
            | "apply_put.intents_released"
            | "apply_remove.applied"
            | "apply_remove.delete"
            | "apply_remove.intents_released"
            | "read.before_blob_open"
            | "remove.after_scan"
            | "remove_range.after_scan"
            | "intent_drop.intents"
            | "delete_orphans.before_unlink"
            | "delete_orphan.before_unlink"
            | "quarantine_orphans.before_rename"
            | "delete_orphans.intents"
            | "read_state.state_r"
            | "cas.open_blob"
            | "cas.rename_blob"
            | "cas.unlink_blob"
    )
}

pub struct Executed {
    /// number of arrivals at interesting points (Points mode)
    pub arrivals: u16,
    pub order: Vec<u8>,
    pub calls: Vec<CallRec>,
    pub flags: BTreeSet<&'static str>,
    pub final_map: BTreeMap<String, ([u8; 32], u64)>,
    pub edges: BTreeSet<(u8, u8, &'static str)>,
}

fn held_name(bit: u8) -> &'static str {
    match bit {
        HELD_INTENTS => "intents",
        HELD_STATE_EXCL => "state",
        HELD_WAL => "wal",
        _ => "?",
    }
}

fn check_dangling(cas: &Cas<String>, dir: &std::path::Path, allowed: &BTreeMap<String, BTreeSet<[u8; 32]>>, ctx: &str) -> R<()> {
    let snap = cas.read_index_state().keys_snapshot();
    for (k, item) in snap {
        let h = *item.blob_hash.as_bytes();
        let p = dir.join("cas").join(rel_path_of(&h));
        match std::fs::read(&p) {
            Ok(d) => {
                if d.len() as u64 != item.blob_size || b3(&d) != h {
                    fail!("dangling/blob-content-wrong", "{ctx}: key {k:?} -> blob {} holds {} bytes (recorded {}), hash mismatch {}", &hexs(&h)[..12], d.len(), item.blob_size, b3(&d) != h);
                }
            }
            Err(_) => fail!("dangling/blob-file-missing", "{ctx}: key {k:?} is visible in the index but its blob {} does not exist", &hexs(&h)[..12]),
        }
        if !allowed.get(&k).is_some_and(|s| s.contains(&h)) {
            fail!("dangling/foreign-content", "{ctx}: key {k:?} maps to content that was never committed for it");
        }
    }
    Ok(())
}

fn check_cashash(dir: &std::path::Path, ctx: &str) -> R<()> {
    let root = dir.join("cas");
    for (rel, _) in list_files(&root) {
        let Some(h) = is_canonical_blob_rel(&rel) else {
            fail!("cashash/non-canonical-file", "{ctx}: cas/{rel} is not at a canonical blob path");
        };
        let data = std::fs::read(root.join(&rel)).unwrap_or_default();
        if b3(&data) != h {
            fail!("cashash/content-mismatch", "{ctx}: cas/{rel} holds {} bytes that do not hash to its path", data.len());
        }
    }
    Ok(())
}

/// Runs one program under one schedule. `stall` is set if a granted worker neither parked nor finished.
pub fn execute(case: &SchedCase, lenses: SLenses, stall: &mut bool) -> R<Executed> {
    install_hook();
    let prog = &case.prog;
    let scratch = Scratch::new("e3");
    let dir = scratch.db();
    let qdir = scratch.path.join("quarantine");
    let cfg = crate::seq::Cfg { kt: "String".into(), n: prog.n, asyn: false, scan: false, verify: false };
    // ---- initial state ----
    let mut init_model: BTreeMap<u8, u8> = BTreeMap::new();
    {
        let cas = Cas::<String>::open(&dir, cfg.config(false)).map_err(|e| Fail::new("open-err", format!("{e:?}")))?;
        for (k, c) in &prog.init {
            let mut tx = cas.put(key(*k)).map_err(|e| Fail::new("op-err/put", format!("{e:?}")))?;
            tx.write(&content(*c)).map_err(|e| Fail::new("op-err/write", format!("{e:?}")))?;
            tx.finish().map_err(|e| Fail::new("op-err/finish", format!("{e:?}")))?;
            init_model.insert((*k).min(KEYS.len() as u8 - 1), (*c).min(CONTENTS.len() as u8 - 1));
        }
    }
    let live: BTreeSet<[u8; 32]> = init_model.values().map(|c| b3(&content(*c))).collect();
    let mut planted = BTreeSet::new();
    for c in &prog.orphans {
        let h = b3(&content(*c));
        if live.contains(&h) {
            continue;
        }
        let p = dir.join("cas").join(rel_path_of(&h));
        std::fs::create_dir_all(p.parent().unwrap()).expect("harness: mkdir");
        std::fs::write(&p, &content(*c)[..]).expect("harness: plant orphan");
        planted.insert(h);
    }
    let uses_orphan_ops = prog.threads.iter().flatten().any(|o| matches!(o, COp::DeleteOrphans | COp::QuarantineOrphans | COp::DeleteOrphan { .. }));
    let (cas, stats) = if uses_orphan_ops {
        let mut c2 = cfg.config(false);
        c2.scan_orphans_on_startup = true;
        let (cas, st) = Cas::<String>::open_with_recover(&dir, c2).map_err(|e| Fail::new("open-err", format!("{e:?}")))?;
        (cas, st.map(Arc::new))
    } else {
        (Cas::<String>::open(&dir, cfg.config(false)).map_err(|e| Fail::new("open-err", format!("{e:?}")))?, None)
    };
    // contents ever committed per key
    let mut allowed: BTreeMap<String, BTreeSet<[u8; 32]>> = BTreeMap::new();
    for (k, c) in &init_model {
        allowed.entry(key(*k)).or_default().insert(b3(&content(*c)));
    }
    for t in &prog.threads {
        for o in t {
            if let COp::Put { k, c } = o {
                allowed.entry(key(*k)).or_default().insert(b3(&content(*c)));
            }
        }
    }
    // ---- session ----
    let nt = prog.threads.len();
    let sess = Arc::new(Sess {
        mu: Mutex::new(SState { workers: vec![WState::Running; nt], granted: None, clock: 0, calls: Vec::new(), open_call: vec![None; nt] }),
        cv_sched: Condvar::new(),
        cv_workers: (0..nt).map(|_| Condvar::new()).collect(),
    });
    let mut handles = Vec::new();
    for (id, ops) in prog.threads.iter().enumerate() {
        let sess = sess.clone();
        let cas = cas.clone();
        let stats = stats.clone();
        let ops = ops.clone();
        let qdir = qdir.clone();
        handles.push(std::thread::spawn(move || {
            CUR.with(|c| *c.borrow_mut() = Some((sess.clone(), id)));
            for op in &ops {
                sess.park(id, "op.begin", WANT_NONE);
                let inv = sess.tick();
                let idx = {
                    let mut g = sess.mu.lock().unwrap();
                    g.calls.push(CallRec { thread: id, op: op.clone(), inv, res_t: u64::MAX, res: Res::Unit });
                    let i = g.calls.len() - 1;
                    g.open_call[id] = Some(i);
                    i
                };
                let res = match std::panic::catch_unwind(std::panic::AssertUnwindSafe(|| exec_op(&cas, &stats, &qdir, op))) {
                    Ok(r) => r,
                    Err(_) => {
                        let (m, l) = crate::engine::take_panic();
                        Res::Panic(format!("{m} at {l}"))
                    }
                };
                let t = sess.tick();
                let mut g = sess.mu.lock().unwrap();
                g.calls[idx].res = res;
                g.calls[idx].res_t = t;
                g.open_call[id] = None;
            }
            CUR.with(|c| *c.borrow_mut() = None);
            let mut g = sess.mu.lock().unwrap();
            g.workers[id] = WState::Done;
            sess.cv_sched.notify_all();
            drop(g);
            drop(cas);
            drop(stats);
        }));
    }
    // ---- scheduler loop ----
    let mut order: Vec<u8> = Vec::new();
    let mut flags: BTreeSet<&'static str> = BTreeSet::new();
    let mut held: Vec<u8> = vec![0; nt];
    let mut holds_read: Vec<bool> = vec![false; nt];
    let mut edges: BTreeSet<(u8, u8, &'static str)> = BTreeSet::new();
    let mut prio: Vec<i32> = match &case.mode {
        Mode::Pct { prio, .. } | Mode::Points { prio, .. } => (0..nt).map(|i| *prio.get(i).unwrap_or(&0) as i32 + 10).collect(),
        _ => vec![0; nt],
    };
    let mut arrivals: u16 = 0;
    let mut sw_stack: Vec<usize> = Vec::new();
    let changes: Vec<usize> = match &case.mode {
        Mode::Pct { changes, .. } => changes.iter().map(|c| *c as usize).collect(),
        _ => vec![],
    };
    let mut step = 0usize;
    let mut last: Option<usize> = None;
    let mut mask_at_grant = 0u8;
    let mut result: R<()> = Ok(());
    loop {
        let mut g = sess.mu.lock().unwrap();
        let mut waited = Duration::ZERO;
        while g.workers.iter().any(|w| *w == WState::Running) {
            let (g2, to) = sess.cv_sched.wait_timeout(g, Duration::from_millis(500)).unwrap();
            g = g2;
            if to.timed_out() {
                waited += Duration::from_millis(500);
                if waited >= Duration::from_secs(6) {
                    *stall = true;
                    break;
                }
            }
        }
        if *stall {
            drop(g);
            break;
        }
        let workers = g.workers.clone();
        drop(g);
        let mask = cassadilia::verif::lock_mask(&cas);
        // attribute lock changes to the worker that just ran
        if let Some(w) = last {
            let acquired = mask & !mask_at_grant;
            let released = mask_at_grant & !mask;
            held[w] |= acquired & (HELD_INTENTS | HELD_STATE_EXCL | HELD_WAL);
            held[w] &= !released;
            if workers[w] == WState::Done {
                held[w] = 0;
            }
            // shared holds: only one worker ran, so a change of the "some reader" bit is its doing
            let readers_now = mask & HELD_STATE_ANY != 0 && mask & HELD_STATE_EXCL == 0;
            let readers_before = mask_at_grant & HELD_STATE_ANY != 0 && mask_at_grant & HELD_STATE_EXCL == 0;
            if readers_now && !readers_before {
                holds_read[w] = true;
            }
            if !readers_now {
                for h in holds_read.iter_mut() {
                    *h = false;
                }
            }
            if workers[w] == WState::Done {
                holds_read[w] = false;
            }
            if lenses.deadlock {
                if let WState::At { name, want } = &workers[w] {
                    if holds_read[w] && (*want == WANT_STATE_R || *want == WANT_STATE_W) && result.is_ok() {
                        result = Err(Fail::new(
                            "deadlock/recursive-state-lock",
                            format!("thread {w} asks for the index state lock at {name} while it already holds it in shared mode; the lock is not re-entrant: with a writer queued in between both wait forever"),
                        ));
                    }
                }
            }
        }
        // lock-order edges: a parked worker that wants a lock while holding others
        for (w, st) in workers.iter().enumerate() {
            if let WState::At { name, want } = st {
                let want_bit = match *want {
                    WANT_INTENTS => HELD_INTENTS,
                    WANT_STATE_W | WANT_STATE_R => HELD_STATE_EXCL,
                    WANT_WAL => HELD_WAL,
                    _ => 0,
                };
                if want_bit != 0 {
                    for hb in [HELD_INTENTS, HELD_STATE_EXCL, HELD_WAL] {
                        if held[w] & hb != 0 && hb != want_bit {
                            edges.insert((hb, want_bit, name));
                        }
                    }
                    if held[w] & want_bit != 0 && *want != WANT_STATE_R {
                        edges.insert((want_bit, want_bit, name));
                    }
                }
            }
        }
        if workers.iter().all(|w| *w == WState::Done) {
            break;
        }
        let ctx = format!("step {step} (after thread {last:?})");
        // ---- observers (all workers parked) ----
        if mask & HELD_STATE_EXCL == 0 && result.is_ok() {
            if lenses.dangling || lenses.orphan_safety {
                if let Err(f) = check_dangling(&cas, &dir, &allowed, &ctx) {
                    result = Err(f);
                }
            }
        }
        if lenses.cashash && result.is_ok() {
            if let Err(f) = check_cashash(&dir, &ctx) {
                result = Err(f);
            }
        }
        // classification
        let in_commit_window = |w: &WState| matches!(w, WState::At { name, .. } if matches!(*name, "commit.before_apply" | "apply_put.intents" | "apply_put.state_w" | "apply_put.wal"));
        let in_read_window = |w: &WState| matches!(w, WState::At { name, .. } if *name == "read.before_blob_open" || *name == "cas.open_blob");
        let lockers = workers.iter().enumerate().filter(|(i, w)| held[*i] != 0 || matches!(w, WState::At { want, .. } if *want != WANT_NONE)).count();
        if lockers >= 2 {
            flags.insert("two_workers_at_locks");
        }
        // enabled set
        let enabled: Vec<usize> = workers.iter().enumerate().filter(|(_, w)| matches!(w, WState::At { want, .. } if grantable(*want, mask))).map(|(i, _)| i).collect();
        if enabled.is_empty() {
            let desc: Vec<String> = workers.iter().enumerate().map(|(i, w)| format!("T{i}:{w:?} holds[{}]", [HELD_INTENTS, HELD_STATE_EXCL, HELD_WAL].iter().filter(|b| held[i] & **b != 0).map(|b| held_name(*b)).collect::<Vec<_>>().join("+"))).collect();
            result = Err(Fail::new("deadlock/all-blocked", format!("{ctx}: every unfinished worker waits for a lock that a parked worker holds: {}", desc.join("; "))));
            // cannot continue: leak the threads
            *stall = true;
            break;
        }
        if result.is_err() {
            // finish the run quickly (no more observations) so threads can be joined
        }
        // choose
        let pick = match &case.mode {
            Mode::Exact => {
                let want = case.choices.get(step).copied().unwrap_or(0) as usize;
                if enabled.contains(&want) {
                    want
                } else {
                    enabled[0]
                }
            }
            Mode::Walk => match case.choices.get(step) {
                Some(c) => enabled[((*c as usize) * enabled.len()) >> 16],
                None => {
                    // tail: keep running the last thread if possible (fewer switches), else the first
                    last.filter(|l| enabled.contains(l)).unwrap_or(enabled[0])
                }
            },
            Mode::Switch { start, switches, all_points } => {
                let cur = match last {
                    None => {
                        let st = (*start as usize).min(nt - 1);
                        if enabled.contains(&st) {
                            Some(st)
                        } else {
                            None
                        }
                    }
                    Some(l) => {
                        let mut target = None;
                        if let WState::At { name, .. } = &workers[l] {
                            if *all_points || interesting(name) {
                                if let Some((_, t)) = switches.iter().find(|(a, _)| *a == arrivals) {
                                    let t = (*t as usize).min(nt - 1);
                                    if t != l && enabled.contains(&t) {
                                        target = Some(t);
                                    }
                                }
                                arrivals += 1;
                            }
                        }
                        match target {
                            Some(t) => {
                                sw_stack.push(l);
                                Some(t)
                            }
                            None => {
                                if enabled.contains(&l) {
                                    Some(l)
                                } else {
                                    None
                                }
                            }
                        }
                    }
                };
                match cur {
                    Some(c) => c,
                    None => {
                        // running thread finished or is blocked: resume the most recently preempted enabled thread
                        let mut pick = None;
                        while let Some(c) = sw_stack.pop() {
                            if enabled.contains(&c) {
                                pick = Some(c);
                                break;
                            }
                        }
                        pick.unwrap_or(enabled[0])
                    }
                }
            }
            Mode::Points { preempt, all_points, .. } => {
                if let Some(l) = last {
                    if let WState::At { name, .. } = &workers[l] {
                        if *all_points || interesting(name) {
                            if preempt.contains(&arrivals) {
                                prio[l] = -(step as i32) - 1;
                            }
                            arrivals += 1;
                        }
                    }
                }
                *enabled.iter().max_by_key(|i| (prio[**i], usize::MAX - **i)).unwrap()
            }
            Mode::Pct { .. } => {
                if changes.contains(&step) {
                    if let Some(l) = last {
                        prio[l] = -(step as i32) - 1;
                    }
                }
                *enabled.iter().max_by_key(|i| (prio[**i], usize::MAX - **i)).unwrap()
            }
        };
        if let Some(l) = last {
            if l != pick && workers[l] != WState::Done {
                flags.insert("context_switch");
                if in_commit_window(&workers[l]) {
                    flags.insert("switch_in_commit_window");
                }
                if in_read_window(&workers[l]) {
                    flags.insert("switch_in_read_window");
                }
                if matches!(&workers[l], WState::At { name, .. } if name.ends_with("before_unlink") || name.ends_with("before_rename")) {
                    flags.insert("switch_before_orphan_unlink");
                }
            }
        }
        if workers.iter().enumerate().any(|(i, w)| i != pick && in_read_window(w)) && matches!(&workers[pick], WState::At { name, .. } if name.ends_with(".applied") || name.ends_with(".delete") || *name == "cas.unlink_blob") {
            flags.insert("write_applied_during_read_window");
        }
        if workers.iter().enumerate().any(|(i, w)| i != pick && in_commit_window(w)) && matches!(&workers[pick], WState::At { name, .. } if name.ends_with(".delete") || name.ends_with("before_unlink") || *name == "cas.unlink_blob") {
            flags.insert("unlink_during_commit_window");
        }
        order.push(pick as u8);
        mask_at_grant = mask;
        last = Some(pick);
        step += 1;
        let mut g = sess.mu.lock().unwrap();
        g.workers[pick] = WState::Running;
        g.granted = Some(pick);
        sess.cv_workers[pick].notify_all();
        drop(g);
        if step > 5000 {
            crate::common::remove_own_scratch();
            eprintln!("HARNESS-ERROR: schedule exceeded 5000 steps");
            std::process::exit(2);
        }
    }
    if *stall {
        // threads are stuck inside the store: leak them together with the scratch directory
        std::mem::forget(scratch);
        std::mem::forget(handles);
        result?;
        return Err(Fail::new("sched/stall", "a granted worker neither reached a yield point nor finished within 6 s"));
    }
    for h in handles {
        let _ = h.join();
    }
    let calls = sess.mu.lock().unwrap().calls.clone();
    result?;
    // ---- end-of-run oracles ----
    for c in &calls {
        if let Res::Panic(m) = &c.res {
            fail!("concurrent/panic", "thread {} op {:?} panicked: {m}", c.thread, c.op);
        }
    }
    if lenses.dangling || lenses.orphan_safety {
        check_dangling(&cas, &dir, &allowed, "at quiescence")?;
    }
    if lenses.cashash {
        check_cashash(&dir, "at quiescence")?;
    }
    let final_map: BTreeMap<String, ([u8; 32], u64)> = cas.read_index_state().iter().map(|(k, i)| (k.clone(), (*i.blob_hash.as_bytes(), i.blob_size))).collect();
    let any_err = calls.iter().any(|c| matches!(c.res, Res::Err(_)));
    if lenses.exact_end && !any_err {
        let files: BTreeSet<String> = list_files(&dir.join("cas")).into_keys().collect();
        let mut want: BTreeSet<String> = final_map.values().map(|(h, _)| rel_path_of(h)).collect();
        // planted orphans that nobody cleaned up or adopted may legitimately remain
        let has_cleanup = uses_orphan_ops;
        for h in &planted {
            let p = rel_path_of(h);
            if files.contains(&p) && !has_cleanup {
                want.insert(p);
            }
        }
        if has_cleanup {
            // with racing clean-up an orphan may or may not have been removed: only referenced files are required
            if !want.is_subset(&files) {
                fail!("listing/blob-missing", "at quiescence cas/ lacks referenced blobs");
            }
            let extra: Vec<&String> = files.difference(&want).filter(|p| !planted.iter().any(|h| rel_path_of(h) == **p)).collect();
            if !extra.is_empty() {
                fail!("listing/unreferenced-blob-left", "at quiescence cas/ holds unreferenced non-planted files {extra:?}");
            }
        } else if files != want {
            let extra: Vec<_> = files.difference(&want).take(3).collect();
            let missing: Vec<_> = want.difference(&files).take(3).collect();
            if !missing.is_empty() {
                fail!("listing/blob-missing", "at quiescence cas/ lacks referenced blobs {missing:?}");
            }
            fail!("listing/unreferenced-blob-left", "at quiescence cas/ holds unreferenced files {extra:?}");
        }
    }
    if (lenses.exact_end || lenses.abort_end) && !any_err {
        let st = list_files(&dir.join("staging")).len();
        if st != 0 {
            fail!("listing/staging-leftover", "staging/ holds {st} files after all threads finished");
        }
    }
    if lenses.stats_end {
        let g = cas.read_index_state();
        let mut rc: BTreeMap<[u8; 32], (u32, u64)> = BTreeMap::new();
        for (h, sz) in final_map.values() {
            let e = rc.entry(*h).or_insert((0, *sz));
            e.0 += 1;
        }
        let got: BTreeMap<[u8; 32], u32> = g.known_blobs().map(|(h, c)| (*h.as_bytes(), *c)).collect();
        let exp: BTreeMap<[u8; 32], u32> = rc.iter().map(|(h, (c, _))| (*h, *c)).collect();
        if got != exp {
            fail!("stats/refcounts", "at quiescence known_blobs {:?} differ from the counts implied by the index {:?}", got.values().collect::<Vec<_>>(), exp.values().collect::<Vec<_>>());
        }
        let st = g.stats();
        let ub = rc.len() as u64;
        let tb: u64 = rc.values().map(|(_, l)| *l).sum();
        if st.cas.unique_blobs != ub || st.cas.total_bytes != tb {
            fail!("stats/cas-stats", "at quiescence stats report unique_blobs={} total_bytes={}, the index implies {ub}/{tb}", st.cas.unique_blobs, st.cas.total_bytes);
        }
        drop(g);
        if cas.stats().cas.unique_blobs != ub || cas.stats().cas.total_bytes != tb {
            fail!("stats/cas-stats", "at quiescence Cas::stats() differs from what the index implies");
        }
        for (k, (h, sz)) in &final_map {
            let file = std::fs::metadata(dir.join("cas").join(rel_path_of(h))).map(|m| m.len()).ok();
            if file != Some(*sz) {
                fail!("stats/item-size", "at quiescence the recorded size of {k:?} is {sz}, its blob file has {file:?} bytes");
            }
        }
    }
    if lenses.linearizable {
        check_linearizable(&init_model, &calls, &cas)?;
    }
    drop(stats);
    drop(cas);
    Ok(Executed { arrivals, order, calls, flags, final_map, edges })
}

fn check_linearizable(init: &BTreeMap<u8, u8>, calls: &[CallRec], cas: &Cas<String>) -> R<()> {
    let mut lc: Vec<linz::Call> = Vec::new();
    for c in calls {
        let label = format!("T{}:{:?}", c.thread, c.op);
        let kidx = |k: u8| k.min(KEYS.len() as u8 - 1);
        let kind = match (&c.op, &c.res) {
            (_, Res::Err(e)) => {
                let reader = matches!(c.op, COp::Get { .. } | COp::GetSize { .. } | COp::GetRange { .. } | COp::GetReader { .. });
                if reader {
                    fail!(format!("linz/read-failed/{e}"), "{label} returned an error under concurrency: {e}");
                }
                fail!(format!("concurrent/op-failed/{e}"), "{label} failed in an error-free environment: {e}");
            }
            (COp::Put { k, c: v }, _) => linz::Kind::Put { k: kidx(*k), v: (*v).min(CONTENTS.len() as u8 - 1) },
            (COp::Remove { k }, Res::Bool(b)) => linz::Kind::Remove { k: kidx(*k), present: *b },
            (COp::RemoveRange { lo, hi }, Res::Count(n)) => {
                let (lo, hi) = if lo <= hi { (*lo, *hi) } else { (*hi, *lo) };
                linz::Kind::RemoveRange { keys: (kidx(lo)..=kidx(hi)).collect(), count: *n }
            }
            (COp::Get { k } | COp::GetReader { k }, Res::Bytes(b)) => {
                let obs = match b {
                    None => None,
                    Some(bytes) => match content_id(bytes) {
                        Some(id) => Some(id),
                        None => fail!("linz/partial-or-mixed-bytes", "{label} returned {} bytes that are not a complete committed content", bytes.len()),
                    },
                };
                linz::Kind::Read { k: kidx(*k), obs }
            }
            (COp::GetSize { k }, Res::Size(s)) => {
                let obs = match s {
                    None => None,
                    Some(sz) => match (0..CONTENTS.len() as u8).find(|c| content(*c).len() as u64 == *sz) {
                        Some(id) => Some(id),
                        None => fail!("linz/size-of-no-content", "{label} returned size {sz} which no committed content has"),
                    },
                };
                linz::Kind::Read { k: kidx(*k), obs }
            }
            (COp::GetRange { k, s, e }, Res::Bytes(b)) => {
                let (s, e) = if s <= e { (*s as usize, *e as usize) } else { (*e as usize, *s as usize) };
                let obs = match b {
                    None => None,
                    Some(bytes) => {
                        // which contents have exactly this slice? (contents have distinct lengths; slices may be ambiguous -> try all)
                        let cands: Vec<u8> = (0..CONTENTS.len() as u8).filter(|c| {
                            let full = content(*c);
                            let a = s.min(full.len());
                            let z = e.min(full.len());
                            full[a..z] == bytes[..]
                        }).collect();
                        if cands.is_empty() {
                            fail!("linz/partial-or-mixed-bytes", "{label} returned a slice that matches no committed content");
                        }
                        if cands.len() > 1 {
                            // ambiguous observation: not used as a constraint
                            continue;
                        }
                        Some(cands[0])
                    }
                };
                linz::Kind::Read { k: kidx(*k), obs }
            }
            _ => continue, // checkpoint / abort / orphan ops: no effect on the abstract map
        };
        lc.push(linz::Call { inv: c.inv, res: c.res_t, kind, label });
    }
    // final read of every key after all threads joined
    let end = calls.iter().map(|c| c.res_t).max().unwrap_or(0) + 10;
    for (i, k) in KEYS.iter().enumerate() {
        let obs = match cas.get(&k.to_string()) {
            Ok(None) => None,
            Ok(Some(b)) => match content_id(&b) {
                Some(id) => Some(id),
                None => fail!("linz/partial-or-mixed-bytes", "final get({k}) returned bytes that are not a committed content"),
            },
            Err(e) => fail!(format!("linz/read-failed/{}", err_path(&e)), "final get({k}) failed: {e:?}"),
        };
        lc.push(linz::Call { inv: end + i as u64, res: end + i as u64, kind: linz::Kind::Read { k: i as u8, obs }, label: format!("final:get({k})") });
    }
    let init: BTreeMap<u8, u8> = init.clone();
    if let Err(e) = linz::check(&init, &lc) {
        let hist: Vec<String> = lc.iter().map(|c| format!("[{}..{}] {} -> {:?}", c.inv, c.res, c.label, c.kind)).collect();
        fail!("linz/not-linearizable", "{e}\n history: {}", hist.join("\n   "));
    }
    Ok(())
}

/// Gate-free conflicting cycle detection over harvested lock-order edges (from, to, site).
pub fn lock_cycle(edges: &BTreeSet<(u8, u8, &'static str)>) -> Option<String> {
    // self edge = re-acquisition of a held non-reentrant lock
    for (a, b, site) in edges {
        if a == b {
            return Some(format!("lock {} re-acquired while held at {site}", held_name(*a)));
        }
    }
    for (a, b, s1) in edges {
        for (c, d, s2) in edges {
            if a == d && b == c && a != b {
                // a->b at s1 and b->a at s2. Gate refinement: both acquisitions happen under a common third lock?
                // The only possible gate is the third lock; it guards iff both sites also hold it.
                let third = [HELD_INTENTS, HELD_STATE_EXCL, HELD_WAL].into_iter().find(|x| x != a && x != b).unwrap();
                let g1 = edges.contains(&(third, *b, s1));
                let g2 = edges.contains(&(third, *a, s2));
                if !(g1 && g2) {
                    return Some(format!("lock-order inversion: {}->{} at {s1}, {}->{} at {s2}", held_name(*a), held_name(*b), held_name(*c), held_name(*d)));
                }
            }
        }
    }
    // 3-cycle intents->state->wal->intents etc.
    let has = |x: u8, y: u8| edges.iter().any(|(a, b, _)| *a == x && *b == y);
    for (x, y, z) in [(HELD_INTENTS, HELD_STATE_EXCL, HELD_WAL), (HELD_INTENTS, HELD_WAL, HELD_STATE_EXCL)] {
        if has(x, y) && has(y, z) && has(z, x) {
            return Some(format!("lock-order cycle {}->{}->{}->{}", held_name(x), held_name(y), held_name(z), held_name(x)));
        }
    }
    None
}

pub fn meta_from(case: &SchedCase, ex: &Executed) -> CaseMeta {
    let mut m = CaseMeta { evals: 1, ..Default::default() };
    for f in &ex.flags {
        m.class(f);
    }
    m.class(match case.mode {
        Mode::Walk => "mode_walk",
        Mode::Pct { .. } => "mode_pct",
        Mode::Exact => "mode_exact",
        Mode::Points { .. } => "mode_points",
        Mode::Switch { .. } => "mode_switch",
    });
    m.class(&format!("threads_{}", case.prog.threads.len()));
    m.count("steps", ex.order.len() as u64);
    m
}

pub fn exec_id(case: &SchedCase, ex: &Executed) -> u64 {
    hash_json(&(&case.prog, &ex.order))
}
