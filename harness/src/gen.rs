//! proptest generators for configurations and sequential histories.

use proptest::collection::vec;
use proptest::prelude::*;
use proptest::strategy::Union;

use crate::common::C;
use crate::seq::{Cfg, SeqCase, Step, B};

#[derive(Clone, Debug)]
pub struct Bias {
    pub put: u32,
    pub begin: u32,
    pub write: u32,
    pub finish: u32,
    pub abort: u32,
    pub remove: u32,
    pub rr: u32,
    pub checkpoint: u32,
    pub reopen: u32,
    pub open_reader: u32,
    pub drain_reader: u32,
    pub get_range: u32,
    pub min_steps: usize,
    pub max_steps: usize,
    /// weights for num_ops_per_wal values
    pub ns: Vec<(u32, u64)>,
    pub key_types: Vec<&'static str>,
    /// weight of big pool contents (>= 4096 bytes) relative to small ones (out of 10)
    pub big: u32,
    /// weight of the 300 001-byte pool content (larger than any plausible internal buffer or threshold)
    pub huge: u32,
    /// number of distinct keys used (prefix of the pool); small -> more collisions
    pub keys: u8,
    /// number of transaction slots used by Begin/Write/Finish/Abort (1..=3)
    pub slots: u8,
}

impl Default for Bias {
    fn default() -> Self {
        Bias {
            put: 10,
            begin: 3,
            write: 4,
            finish: 3,
            abort: 1,
            remove: 3,
            rr: 2,
            checkpoint: 2,
            reopen: 0,
            open_reader: 0,
            drain_reader: 0,
            get_range: 1,
            min_steps: 1,
            max_steps: 40,
            ns: vec![(3, 1), (3, 2), (3, 3), (1, 4), (1, 5), (1, 7), (1, 10), (1, 64), (2, 10_000)],
            key_types: crate::common::KEY_TYPES.to_vec(),
            big: 3,
            huge: 0,
            keys: 7,
            slots: 3,
        }
    }
}

pub fn content(big: u32) -> BoxedStrategy<C> {
    content2(big, 0)
}

pub fn content2(big: u32, huge: u32) -> BoxedStrategy<C> {
    let mut alts: Vec<(u32, BoxedStrategy<C>)> = vec![
        (10, (0u8..3).prop_map(C::P).boxed()),
        (3, vec(any::<u8>(), 0..48).prop_map(C::R).boxed()),
        (2, (0u8..4).prop_map(|b| C::R(vec![b; 1])).boxed()),
    ];
    if big > 0 {
        alts.push((big, (3u8..9).prop_map(C::P).boxed()));
    }
    if huge > 0 {
        alts.push((huge, Just(C::P(9)).boxed()));
    }
    Union::new_weighted(alts).boxed()
}

pub fn cuts() -> BoxedStrategy<Vec<u32>> {
    vec(prop_oneof![4 => 0u32..4, 3 => 0u32..10_000, 1 => Just(8192u32), 1 => Just(8193u32), 1 => Just(70_000u32)], 0..5).boxed()
}

pub fn bound(keys: u8) -> BoxedStrategy<B> {
    prop_oneof![2 => Just(B::U), 3 => (0..keys).prop_map(B::I), 3 => (0..keys).prop_map(B::E)].boxed()
}

pub fn step(b: &Bias) -> BoxedStrategy<Step> {
    let keys = b.keys.max(1);
    let mut alts: Vec<(u32, BoxedStrategy<Step>)> = Vec::new();
    let mut add = |w: u32, s: BoxedStrategy<Step>| {
        if w > 0 {
            alts.push((w, s));
        }
    };
    add(b.put, (0..keys, content2(b.big, b.huge), cuts()).prop_map(|(k, c, cuts)| Step::Put { k, c, cuts }).boxed());
    let slots = b.slots.clamp(1, 3);
    add(b.begin, (0u8..slots, 0..keys).prop_map(|(s, k)| Step::Begin { s, k }).boxed());
    add(b.write, (0u8..slots, content2(b.big, b.huge)).prop_map(|(s, c)| Step::Write { s, c }).boxed());
    add(b.finish, (0u8..slots).prop_map(|s| Step::Finish { s }).boxed());
    add(b.abort, (0u8..slots).prop_map(|s| Step::Abort { s }).boxed());
    add(b.remove, (0..keys).prop_map(|k| Step::Remove { k }).boxed());
    add(b.rr, (bound(keys), bound(keys)).prop_map(|(lo, hi)| Step::RemoveRange { lo, hi }).boxed());
    add(b.checkpoint, Just(Step::Checkpoint).boxed());
    add(b.reopen, any::<bool>().prop_map(|f| Step::Reopen { flip: f }).boxed());
    add(b.open_reader, (0u8..2, 0..keys).prop_map(|(r, k)| Step::OpenReader { r, k }).boxed());
    add(b.drain_reader, (0u8..2).prop_map(|r| Step::DrainReader { r }).boxed());
    add(
        b.get_range,
        (0..keys, range_val(), range_val()).prop_map(|(k, s, e)| Step::GetRange { k, s, e }).boxed(),
    );
    Union::new_weighted(alts).boxed()
}

pub fn range_val() -> BoxedStrategy<u64> {
    prop_oneof![
        4 => 0u64..10,
        3 => 4090u64..8200,
        2 => 0u64..80_000,
        1 => 0u64..310_000,
        1 => Just(u64::MAX),
        1 => Just(1u64 << 32),
        1 => Just(1u64 << 63),
        1 => any::<u64>(),
    ]
    .boxed()
}

pub fn cfg(b: &Bias) -> BoxedStrategy<Cfg> {
    let kts: Vec<String> = b.key_types.iter().map(|s| s.to_string()).collect();
    let ns: Vec<(u32, BoxedStrategy<u64>)> = b.ns.iter().map(|(w, n)| (*w, Just(*n).boxed())).collect();
    (proptest::sample::select(kts), Union::new_weighted(ns), any::<bool>(), any::<bool>(), any::<bool>())
        .prop_map(|(kt, n, asyn, scan, verify)| Cfg { kt, n, asyn, scan, verify })
        .boxed()
}

pub fn seq_case(b: &Bias) -> BoxedStrategy<SeqCase> {
    (cfg(b), vec(step(b), b.min_steps..=b.max_steps)).prop_map(|(cfg, steps)| SeqCase { cfg, steps }).boxed()
}

// ---------------------------------------------------------------------------------------------
// E2 cases

use crate::e2::{E2Case, End, Epoch};

pub fn e2_step(keys: u8, big: u32, reopen: u32, allow_flip: bool) -> BoxedStrategy<Step> {
    let mut alts: Vec<(u32, BoxedStrategy<Step>)> = vec![
        (10, (0..keys, content(big), cuts()).prop_map(|(k, c, cuts)| Step::Put { k, c, cuts }).boxed()),
        (3, (0..keys).prop_map(|k| Step::Remove { k }).boxed()),
        (3, (bound(keys), bound(keys)).prop_map(|(lo, hi)| Step::RemoveRange { lo, hi }).boxed()),
        (1, Just(Step::RemoveRange { lo: B::U, hi: B::U }).boxed()),
        (2, Just(Step::Checkpoint).boxed()),
    ];
    if reopen > 0 {
        alts.push((reopen, any::<bool>().prop_map(move |f| Step::Reopen { flip: f && allow_flip }).boxed()));
    }
    Union::new_weighted(alts).boxed()
}

#[derive(Clone, Debug)]
pub struct E2Bias {
    pub key_types: Vec<&'static str>,
    pub ns: Vec<(u32, u64)>,
    pub max_epochs: usize,
    pub min_ops: usize,
    pub max_ops: usize,
    pub sync_only: bool,
    pub big: u32,
    pub validate: usize,
}

pub fn e2_case(b: &E2Bias) -> BoxedStrategy<E2Case> {
    let kts: Vec<String> = b.key_types.iter().map(|s| s.to_string()).collect();
    let ns: Vec<(u32, BoxedStrategy<u64>)> = b.ns.iter().map(|(w, n)| (*w, Just(*n).boxed())).collect();
    let sync_only = b.sync_only;
    let cfg = (proptest::sample::select(kts), Union::new_weighted(ns), any::<bool>(), any::<bool>(), any::<bool>())
        .prop_map(move |(kt, n, asyn, scan, verify)| Cfg { kt, n, asyn: asyn && !sync_only, scan, verify });
    let end = prop_oneof![1 => Just(End::Clean), 3 => any::<u16>().prop_map(End::Crash)];
    let epoch = (vec(e2_step(7, b.big, 1, !sync_only), b.min_ops..=b.max_ops), prop::bool::weighted(0.3), prop::bool::weighted(if sync_only { 0.0 } else { 0.2 }), end)
        .prop_map(|(ops, cleanup, flip_sync, end)| Epoch { ops, cleanup, flip_sync, end });
    (cfg, vec(epoch, 1..=b.max_epochs), vec(any::<u16>(), b.validate..=b.validate))
        .prop_map(|(cfg, epochs, validate)| E2Case { cfg, epochs, validate, check_from_op: None })
        .boxed()
}

// ---------------------------------------------------------------------------------------------
// fault cases (C14)

use crate::fault::FaultCase;

pub fn fault_case() -> BoxedStrategy<FaultCase> {
    let keys = 4u8;
    let small = prop_oneof![6 => (0u8..3).prop_map(C::P), 2 => (0u8..3).prop_map(|b| C::R(vec![b; 3])), 1 => (3u8..8).prop_map(C::P)];
    let op = prop_oneof![
        10 => (0..keys, small, cuts()).prop_map(|(k, c, cuts)| Step::Put { k, c, cuts }),
        4 => (0..keys).prop_map(|k| Step::Remove { k }),
        2 => (bound(keys), bound(keys)).prop_map(|(lo, hi)| Step::RemoveRange { lo, hi }),
        1 => Just(Step::Checkpoint),
        3 => (0..keys).prop_map(|k| Step::GetRange { k, s: 0, e: 0 }),
    ];
    let cfg = (proptest::sample::select(vec!["String".to_string(), "U64".to_string(), "VecU8".to_string()]), prop_oneof![Just(1u64), Just(2), Just(3), Just(100)], any::<bool>(), any::<bool>(), any::<bool>())
        .prop_map(|(kt, n, asyn, scan, verify)| Cfg { kt, n, asyn, scan, verify });
    let pre = prop_oneof![
        2 => Just(Vec::<Step>::new()),
        3 => vec(prop_oneof![6 => (0..keys, (0u8..3).prop_map(C::P)).prop_map(|(k, c)| Step::Put { k, c, cuts: vec![] }), 1 => (0..keys).prop_map(|k| Step::Remove { k }), 1 => Just(Step::Checkpoint)], 1..7),
    ];
    (cfg, vec(op, 4..=12), prop::bool::weighted(0.3), pre).prop_map(|(cfg, ops, enospc, pre_ops)| FaultCase { cfg, ops, enospc, only_k: None, pre_ops }).boxed()
}

// ---------------------------------------------------------------------------------------------
// E3 cases

use crate::sched::{COp, Mode, Prog, SchedCase};

#[derive(Clone, Debug)]
pub struct E3Bias {
    pub put: u32,
    pub remove: u32,
    pub rr: u32,
    pub reads: u32,
    pub checkpoint: u32,
    pub abort: u32,
    pub orphan_ops: u32,
    pub ns: Vec<u64>,
    pub max_threads: usize,
    pub max_ops: usize,
    pub plant_orphans: bool,
    pub keys: u8,
    pub contents: u8,
}

impl Default for E3Bias {
    fn default() -> Self {
        E3Bias { put: 10, remove: 4, rr: 2, reads: 2, checkpoint: 1, abort: 0, orphan_ops: 0, ns: vec![1, 2, 3, 100], max_threads: 3, max_ops: 3, plant_orphans: false, keys: 3, contents: 3 }
    }
}

pub fn cop(b: &E3Bias) -> BoxedStrategy<COp> {
    let keys = b.keys;
    let cs = b.contents;
    let mut alts: Vec<(u32, BoxedStrategy<COp>)> = Vec::new();
    let mut add = |w: u32, s: BoxedStrategy<COp>| {
        if w > 0 {
            alts.push((w, s));
        }
    };
    add(b.put, (0..keys, 0..cs).prop_map(|(k, c)| COp::Put { k, c }).boxed());
    add(b.remove, (0..keys).prop_map(|k| COp::Remove { k }).boxed());
    add(b.rr, (0..keys, 0..keys).prop_map(|(lo, hi)| COp::RemoveRange { lo, hi }).boxed());
    add(b.reads, prop_oneof![
        3 => (0..keys).prop_map(|k| COp::Get { k }),
        1 => (0..keys).prop_map(|k| COp::GetSize { k }),
        2 => (0..keys, prop_oneof![3 => Just(0u8), 1 => 0u8..6], prop_oneof![3 => Just(200u8), 1 => 0u8..8]).prop_map(|(k, s, e)| COp::GetRange { k, s, e }),
        2 => (0..keys).prop_map(|k| COp::GetReader { k }),
    ].boxed());
    add(b.checkpoint, Just(COp::Checkpoint).boxed());
    add(b.abort, (0..keys, 0..cs).prop_map(|(k, c)| COp::Abort { k, c }).boxed());
    add(b.orphan_ops, prop_oneof![2 => Just(COp::DeleteOrphans), 1 => Just(COp::QuarantineOrphans), 1 => (0..cs).prop_map(|c| COp::DeleteOrphan { c })].boxed());
    Union::new_weighted(alts).boxed()
}

fn heat(op: &mut COp, hot_k: u8, hot_c: u8, mask: u8) {
    // mask bit0: use the hot key, bit1: use the hot content
    match op {
        COp::Put { k, c } | COp::Abort { k, c } => {
            if mask & 1 != 0 {
                *k = hot_k;
            }
            if mask & 2 != 0 {
                *c = hot_c;
            }
        }
        COp::Remove { k } | COp::Get { k } | COp::GetSize { k } | COp::GetReader { k } | COp::GetRange { k, .. } => {
            if mask & 1 != 0 {
                *k = hot_k;
            }
        }
        COp::DeleteOrphan { c } => {
            if mask & 2 != 0 {
                *c = hot_c;
            }
        }
        _ => {}
    }
}

pub fn prog(b: &E3Bias) -> BoxedStrategy<Prog> {
    let keys = b.keys;
    let cs = b.contents;
    let hot = (0..keys, 0..cs, vec(0u8..8, 16));
    let orphans = if b.plant_orphans { vec(0..cs, 1..3).boxed() } else { Just(Vec::new()).boxed() };
    (proptest::sample::select(b.ns.clone()), vec((0..keys, 0..cs), 0..4), orphans, vec(vec(cop(b), 1..=b.max_ops), 2..=b.max_threads), hot)
        .prop_map(|(n, mut init, mut orphans, mut threads, (hot_k, hot_c, masks))| {
            // collisions are what matters: about half of the ops are pulled onto one hot key / hot content
            let mut i = 0;
            for t in threads.iter_mut() {
                for op in t.iter_mut() {
                    let m = masks[i % masks.len()];
                    i += 1;
                    heat(op, hot_k, hot_c, if m < 5 { m & 3 } else { 0 });
                }
            }
            if masks[0] & 1 != 0 {
                if let Some(x) = init.first_mut() {
                    x.1 = hot_c;
                }
                if let Some(o) = orphans.first_mut() {
                    *o = hot_c;
                }
            }
            Prog { n, init, orphans, threads }
        })
        .boxed()
}

pub fn sched_case(b: &E3Bias) -> BoxedStrategy<SchedCase> {
    let mode = prop_oneof![
        2 => Just(Mode::Walk),
        2 => (vec(any::<u8>(), 4), vec(0u8..40, 0..3)).prop_map(|(prio, changes)| Mode::Pct { prio, changes }),
        3 => (vec(any::<u8>(), 4), vec(0u16..24, 0..3), prop::bool::weighted(0.2)).prop_map(|(prio, preempt, all_points)| Mode::Points { prio, preempt, all_points }),
        4 => (0u8..4, vec((0u16..30, 0u8..4), 0..4), prop::bool::weighted(0.2)).prop_map(|(start, switches, all_points)| Mode::Switch { start, switches, all_points }),
    ];
    (prog(b), mode, vec(any::<u16>(), 0..70)).prop_map(|(prog, mode, choices)| SchedCase { prog, mode, choices }).boxed()
}

/// Bulk-range histories for C03: thousands of keys, then ONE range removal covering them; only the
/// removal (and what follows) is cut.
pub fn e2_bulk_case() -> BoxedStrategy<E2Case> {
    (
        proptest::sample::select(vec!["U64".to_string(), "VecU8".to_string()]),
        prop_oneof![Just(2u64), Just(5u64), Just(100u64), Just(10_000u64)],
        any::<bool>(),
        prop_oneof![3 => 1030u16..1300, 2 => 1300u16..2600, 1 => 100u16..1030],
        proptest::option::of(0u8..6),
        any::<bool>(),
    )
        .prop_map(|(kt, n, asyn, count, extra, checkpoint)| {
            let mut ops = vec![Step::Bulk { n: count }];
            if let Some(k) = extra {
                ops.push(Step::Put { k, c: C::P(2), cuts: vec![] });
            }
            if checkpoint {
                ops.push(Step::Checkpoint);
            }
            let from = ops.len();
            ops.push(Step::RemoveRange { lo: B::U, hi: B::U });
            ops.push(Step::Put { k: 0, c: C::P(1), cuts: vec![] });
            E2Case { cfg: Cfg { kt, n, asyn, scan: false, verify: false }, epochs: vec![Epoch { ops, cleanup: false, flip_sync: false, end: End::Clean }], validate: vec![], check_from_op: Some(from) }
        })
        .boxed()
}
