//! E2 fault runs (C14): one injected I/O failure at every eligible filesystem call of a history.

use std::collections::{BTreeMap, HashMap};
use std::ops::Bound;
use std::time::Duration;

use cassadilia::Cas;
use serde::{Deserialize, Serialize};

use crate::common::*;
use crate::engine::{CaseMeta, R};
use crate::fail;
use crate::fsmodel::{Ev, Event};
use crate::proc::{err_path, obs_of_bytes, run_worker, RunOut, Script, ShimMode};
use crate::seq::{normalise_bounds, Cfg, Step, B};

#[derive(Clone, Debug, Serialize, Deserialize)]
pub struct FaultCase {
    pub cfg: Cfg,
    pub ops: Vec<Step>,
    pub enospc: bool,
    /// if set, only this eligible-call index is exercised (used by shrunk replays)
    pub only_k: Option<u64>,
    /// operations executed (without faults) in an earlier session of the same store: the faulty
    /// session then continues existing segments / a snapshot instead of a fresh directory
    #[serde(default)]
    pub pre_ops: Vec<Step>,
}

/// possible values of a key: None = absent
type Alts = Vec<Option<Bytes>>;

struct UModel<K: HKey> {
    certain: BTreeMap<K, Bytes>,
    uncertain: BTreeMap<K, Alts>,
}

impl<K: HKey> UModel<K> {
    fn alts(&self, k: &K) -> Alts {
        match self.uncertain.get(k) {
            Some(a) => a.clone(),
            None => vec![self.certain.get(k).cloned()],
        }
    }
    fn add_alt(&mut self, k: &K, v: Option<Bytes>) {
        let mut a = self.alts(k);
        if !a.iter().any(|x| x.as_ref().map(|b| b3(b)) == v.as_ref().map(|b| b3(b))) {
            a.push(v);
        }
        if a.len() > 1 {
            self.certain.remove(k);
            self.uncertain.insert(k.clone(), a);
        }
    }
    fn set(&mut self, k: &K, v: Option<Bytes>) {
        self.uncertain.remove(k);
        match v {
            Some(b) => {
                self.certain.insert(k.clone(), b);
            }
            None => {
                self.certain.remove(k);
            }
        }
    }
    fn may_be_present(&self, k: &K) -> bool {
        self.alts(k).iter().any(|a| a.is_some())
    }
    fn may_be_absent(&self, k: &K) -> bool {
        self.alts(k).iter().any(|a| a.is_none())
    }
    fn obs_ok(&self, k: &K, obs: &str) -> bool {
        self.alts(k).iter().any(|a| obs_of_bytes(a.as_ref().map(|b| &b[..])) == obs)
    }
}

fn site_of(trace: &[Event], root: &str) -> Option<(usize, String)> {
    // returns (event index of the inject record, "<kind>:<file class>")
    let mut fds: HashMap<i32, String> = HashMap::new();
    let class = |p: &str| -> &'static str {
        let rel = p.strip_prefix(root).unwrap_or(p).trim_start_matches('/');
        if rel.starts_with("cas/") || rel == "cas" {
            "cas"
        } else if rel.starts_with("staging") {
            "staging"
        } else if rel.ends_with("_index.wal") {
            "wal"
        } else if rel == "index.tmp" {
            "index.tmp"
        } else if rel == "index" {
            "index"
        } else {
            "other"
        }
    };
    for (i, e) in trace.iter().enumerate() {
        match &e.ev {
            Ev::Open { ret, path, .. } if *ret >= 0 => {
                fds.insert(*ret as i32, path.clone());
            }
            Ev::Close { fd } => {
                fds.remove(fd);
            }
            Ev::Inject { .. } => {
                let next = trace.get(i + 1)?;
                let s = match &next.ev {
                    Ev::Open { path, .. } => format!("open:{}", class(path)),
                    Ev::Write { fd, .. } => format!("write:{}", fds.get(fd).map_or("?", |p| class(p))),
                    Ev::Sync { fd, .. } => format!("sync:{}", fds.get(fd).map_or("?", |p| class(p))),
                    Ev::Rename { old, new, .. } => format!("rename:{}->{}", class(old), class(new)),
                    Ev::Unlink { path, .. } => format!("unlink:{}", class(path)),
                    Ev::Mkdir { path, .. } => format!("mkdir:{}", class(path)),
                    Ev::Trunc { .. } => "trunc".into(),
                    _ => "other".into(),
                };
                return Some((i, s));
            }
            _ => {}
        }
    }
    None
}

fn op_at(trace: &[Event], idx: usize) -> Option<usize> {
    let mut cur = None;
    for e in &trace[..idx] {
        if let Ev::Mark(t) = &e.ev {
            let mut it = t.split(' ');
            match it.next() {
                Some("B") => cur = it.next().and_then(|x| x.parse().ok()),
                Some("E") => cur = None,
                _ => {}
            }
        }
    }
    cur
}

fn count_eligible(trace: &[Event]) -> u64 {
    let mut armed = false;
    let mut n = 0;
    for e in trace {
        match &e.ev {
            Ev::Mark(t) if t == "ARM" => armed = true,
            Ev::Mark(t) if t == "DISARM" => armed = false,
            Ev::Sync { .. } if armed => n += 1,
            _ if armed && e.mseq > 0 => n += 1,
            _ => {}
        }
    }
    n
}

fn harness_exit(msg: &str) -> ! {
    eprintln!("HARNESS-ERROR: {msg}");
    crate::common::remove_own_scratch();
    std::process::exit(2);
}

/// Set by the C20 fault part: additionally judge the files on disk with the independent reader.
pub static ONDISK_LENS: std::sync::atomic::AtomicBool = std::sync::atomic::AtomicBool::new(false);

fn ondisk_agrees<K: HKey>(db: &std::path::Path, n: u64, cas: &Cas<K>, ctx: &str) -> R<()> {
    let shown: crate::ondisk::State = cas.read_index_state().iter().map(|(k, i)| (k.to_key_bytes_owned(), (*i.blob_hash.as_bytes(), i.blob_size))).collect();
    let d = match crate::ondisk::read_disk(db) {
        Ok(d) => d,
        Err(e) => fail!("ondisk/malformed", "{ctx}: the independent reader rejects the files: {e}"),
    };
    if let Err(e) = d.check_versions(n) {
        fail!("ondisk/version-order-or-range", "{ctx}: {e}");
    }
    let st = d.decode_state();
    if st != shown {
        fail!("ondisk/decoded-state-differs", "{ctx}: snapshot (v{}) + log (max v{}) decode to {} keys, the store shows {} keys: an acknowledged operation is not recoverable from the files (version reused or record below the snapshot version)", d.snap_version(), d.max_version(), st.len(), shown.len());
    }
    Ok(())
}

fn judge<K: HKey>(case: &FaultCase, run: &RunOut, db: &std::path::Path, k: u64, meta: &mut CaseMeta) -> R<bool> {
    let pool = K::pool();
    let key = |i: u8| pool[(i as usize).min(pool.len() - 1)].clone();
    let root = db.to_string_lossy().to_string();
    let Some((inj_idx, site)) = site_of(&run.trace, &root) else {
        meta.class("fault_not_reached");
        return Ok(false);
    };
    let fault_op = op_at(&run.trace, inj_idx);
    meta.class(&format!("site:{site}"));
    if run.out.open != "ok" {
        harness_exit(&format!("fault run: worker could not open a fresh store: {}", run.out.open_detail));
    }
    let sigsite = |what: &str| format!("fault/{what}@{site}");
    // 1. no panic
    if let Some(p) = run.out.ops.iter().find(|r| r.status == "panic") {
        fail!(sigsite("panic"), "k={k} ({site}): op {} {:?} panicked: {:?}", p.i, case.ops.get(p.i), p.err);
    }
    if run.code != Some(0) {
        fail!(sigsite("worker-died"), "k={k} ({site}): worker exit code {:?} after {} ops", run.code, run.out.ops.len());
    }
    // 2. walk the results with the uncertainty model
    let mut init: crate::e2::Model<K> = BTreeMap::new();
    for op in &case.pre_ops {
        init = crate::e2::apply_step(&init, &pool, op);
    }
    let mut m = UModel::<K> { certain: init, uncertain: BTreeMap::new() };
    let mut later_ops = 0;
    for r in &run.out.ops {
        let op = &case.ops[r.i];
        let is_fault_op = Some(r.i) == fault_op;
        if fault_op.is_some_and(|f| r.i > f) {
            later_ops += 1;
        }
        let ok = r.status == "ok";
        if !ok && !is_fault_op {
            meta.class("later_op_failed");
        }
        match op {
            Step::Put { k: ki, c, .. } => {
                let kk = key(*ki);
                if ok {
                    m.set(&kk, Some(c.bytes()));
                } else {
                    m.add_alt(&kk, Some(c.bytes()));
                }
            }
            Step::Remove { k: ki } => {
                let kk = key(*ki);
                if ok {
                    match r.ret {
                        Some(1) => {
                            if !m.may_be_present(&kk) {
                                fail!(sigsite("remove-return"), "k={k}: remove({kk:?}) returned true for a key that cannot be present");
                            }
                            m.set(&kk, None);
                        }
                        _ => {
                            if !m.may_be_absent(&kk) {
                                fail!(sigsite("remove-return"), "k={k}: remove({kk:?}) returned false for a key that must be present");
                            }
                            // nothing was logged: the key keeps its alternatives (a failed put may resurface)
                            m.add_alt(&kk, None);
                        }
                    }
                } else {
                    m.add_alt(&kk, None);
                }
            }
            Step::RemoveRange { lo, hi } => {
                let (lo, hi) = normalise_bounds(*lo, *hi, pool.len());
                let b = |x: B| match x {
                    B::U => Bound::Unbounded,
                    B::I(i) => Bound::Included(key(i)),
                    B::E(i) => Bound::Excluded(key(i)),
                };
                let range = (b(lo), b(hi));
                let in_range: Vec<K> = pool.iter().filter(|p| std::ops::RangeBounds::contains(&range, *p)).cloned().collect();
                let must: usize = in_range.iter().filter(|p| !m.may_be_absent(p)).count();
                let may: usize = in_range.iter().filter(|p| m.may_be_present(p)).count();
                if ok {
                    let n = r.ret.unwrap_or(0) as usize;
                    if n < must || n > may {
                        fail!(sigsite("remove_range-return"), "k={k}: remove_range returned {n}, possible range is {must}..={may}");
                    }
                    for p in &in_range {
                        if m.uncertain.contains_key(p) {
                            m.add_alt(p, None);
                        } else {
                            m.set(p, None);
                        }
                    }
                } else {
                    for p in &in_range {
                        if m.may_be_present(p) {
                            m.add_alt(p, None);
                        }
                    }
                }
            }
            Step::GetRange { k: ki, .. } => {
                let kk = key(*ki);
                let obs = r.obs.clone().unwrap_or_default();
                if !ok || !m.obs_ok(&kk, &obs) {
                    let touched = m.uncertain.contains_key(&kk);
                    let what = if obs.starts_with("err:") { format!("read-error/{}", obs.trim_start_matches("err:")) } else { "read-wrong-value".to_string() };
                    let who = if touched { "failed-op-key" } else { "other-key" };
                    fail!(sigsite(&format!("{who}/{what}")), "k={k} ({site}, fault in op {fault_op:?}): get({kk:?}) observed {obs:?}, allowed {:?}", m.alts(&kk).iter().map(|a| obs_of_bytes(a.as_ref().map(|b| &b[..]))).collect::<Vec<_>>());
                }
            }
            _ => {}
        }
    }
    if run.out.ops.len() != case.ops.len() {
        harness_exit("fault run: worker did not report every op");
    }
    // 3. in-memory state before close
    let dump = run.out.dump.clone().unwrap_or_default();
    for (i, kk) in pool.iter().enumerate() {
        let obs = dump.get(i).cloned().unwrap_or_default();
        if !m.obs_ok(kk, &obs) {
            let touched = m.uncertain.contains_key(kk);
            let what = if obs.starts_with("err:") { format!("read-error/{}", obs.trim_start_matches("err:")) } else { "wrong-value".to_string() };
            let who = if touched { "failed-op-key" } else { "other-key" };
            fail!(sigsite(&format!("{who}/before-close/{what}")), "k={k} ({site}, fault in op {fault_op:?}): before close get({kk:?}) = {obs:?}, allowed {:?}", m.alts(kk).iter().map(|a| obs_of_bytes(a.as_ref().map(|b| &b[..]))).collect::<Vec<_>>());
        }
    }
    // 4. reopen (fresh handle, same configuration)
    let cas = match Cas::<K>::open(db, case.cfg.config(case.cfg.asyn)) {
        Ok(c) => c,
        Err(e) => {
            fail!(sigsite(&format!("reopen-fails/{}", err_path(&e))), "k={k} ({site}, fault in op {fault_op:?} {:?}): reopening after a clean close fails: {e:?}", fault_op.and_then(|f| case.ops.get(f)));
        }
    };
    for kk in &pool {
        let obs = match cas.get(kk) {
            Ok(None) => "absent".to_string(),
            Ok(Some(b)) => obs_of_bytes(Some(&b[..])),
            Err(e) => format!("err:{}", err_path(&e)),
        };
        if !m.obs_ok(kk, &obs) {
            let touched = m.uncertain.contains_key(kk);
            let what = if obs.starts_with("err:") { format!("read-error/{}", obs.trim_start_matches("err:")) } else { "wrong-value".to_string() };
            let who = if touched { "failed-op-key" } else { "other-key" };
            fail!(sigsite(&format!("{who}/after-reopen/{what}")), "k={k} ({site}, fault in op {fault_op:?}): after reopen get({kk:?}) = {obs:?}, allowed {:?}", m.alts(kk).iter().map(|a| obs_of_bytes(a.as_ref().map(|b| &b[..]))).collect::<Vec<_>>());
        }
    }
    let ondisk = ONDISK_LENS.load(std::sync::atomic::Ordering::SeqCst);
    if ondisk {
        ondisk_agrees::<K>(db, case.cfg.n, &cas, &format!("k={k} ({site}, fault in op {fault_op:?}) after the clean reopen"))?;
    }
    // 5. life goes on: one more acknowledged put on the reopened store, another clean restart, and the put
    //    must be there (a failed call must not poison what is stored later), all other keys as before
    let sentinel = crate::common::gen_content(4242, 33);
    let k0 = pool[0].clone();
    let put = (|| -> Result<(), cassadilia::LibError> {
        let mut tx = cas.put(k0.clone())?;
        tx.write(&sentinel).map_err(|e| cassadilia::LibError::Io { operation: cassadilia::LibIoOperation::WriteStagingFile, path: None, source: std::io::Error::other(format!("{e:?}")) })?;
        tx.finish()
    })();
    if let Err(e) = put {
        fail!(sigsite(&format!("put-after-reopen-fails/{}", err_path(&e))), "k={k} ({site}, fault in op {fault_op:?}): a put on the cleanly reopened store fails: {e:?}");
    }
    if ondisk {
        ondisk_agrees::<K>(db, case.cfg.n, &cas, &format!("k={k} ({site}, fault in op {fault_op:?}) after one more acknowledged put on the reopened store"))?;
    }
    drop(cas);
    let cas = match Cas::<K>::open(db, case.cfg.config(case.cfg.asyn)) {
        Ok(c) => c,
        Err(e) => {
            fail!(sigsite(&format!("second-reopen-fails/{}", err_path(&e))), "k={k} ({site}, fault in op {fault_op:?}): the second clean reopen (after one more put) fails: {e:?}");
        }
    };
    for (i, kk) in pool.iter().enumerate() {
        let got = cas.get(kk);
        if i == 0 {
            match &got {
                Ok(Some(b)) if b[..] == sentinel[..] => {}
                other => fail!(sigsite("put-after-reopen-lost"), "k={k} ({site}, fault in op {fault_op:?}): a put acknowledged after the first reopen is not there after the second: get = {:?}", other.as_ref().map(|o| o.as_ref().map(|b| b.len()))),
            }
            continue;
        }
        let obs = match got {
            Ok(None) => "absent".to_string(),
            Ok(Some(b)) => obs_of_bytes(Some(&b[..])),
            Err(e) => format!("err:{}", err_path(&e)),
        };
        if !m.obs_ok(kk, &obs) {
            let touched = m.uncertain.contains_key(kk);
            let what = if obs.starts_with("err:") { format!("read-error/{}", obs.trim_start_matches("err:")) } else { "wrong-value".to_string() };
            let who = if touched { "failed-op-key" } else { "other-key" };
            fail!(sigsite(&format!("{who}/after-second-reopen/{what}")), "k={k} ({site}, fault in op {fault_op:?}): after the second reopen get({kk:?}) = {obs:?}");
        }
    }
    drop(cas);
    if m.uncertain.len() > 0 {
        meta.class("uncertain_keys_present");
    }
    Ok(fault_op.is_some() && later_ops >= 2)
}

pub fn run_fault<K: HKey>(case: &FaultCase, is_known: &(dyn Fn(&str) -> bool + Sync)) -> R<CaseMeta> {
    let scratch = Scratch::new("fault");
    let work = scratch.path.join("work");
    std::fs::create_dir_all(&work).expect("harness: mkdir work");
    let mut meta = CaseMeta::default();
    let case_hash = hash_json(&(&case.cfg, &case.ops, case.enospc, &case.pre_ops));
    let script = Script { cfg: case.cfg.clone(), asyn: case.cfg.asyn, cleanup: false, ops: case.ops.clone(), dump: true, pre_create: false };
    // earlier fault-free session (template directory, copied for every fault position)
    let template = scratch.path.join("template");
    std::fs::create_dir_all(&template).expect("harness: mkdir");
    if !case.pre_ops.is_empty() {
        let pre = Script { cfg: case.cfg.clone(), asyn: case.cfg.asyn, cleanup: false, ops: case.pre_ops.clone(), dump: false, pre_create: false };
        let r = run_worker(&template, &work, "pre", &pre, ShimMode::Trace, Duration::from_secs(60));
        if r.timed_out || r.code != Some(0) || r.out.ops.iter().any(|o| o.status != "ok") {
            harness_exit(&format!("fault check: the fault-free first session failed: code {:?}", r.code));
        }
        meta.class("prepopulated_store");
    }
    // dry run: number of eligible calls
    let db0 = scratch.path.join("db0");
    copy_tree(&template, &db0);
    let dry = run_worker(&db0, &work, "dry", &script, ShimMode::Trace, Duration::from_secs(60));
    if dry.timed_out || dry.code != Some(0) {
        harness_exit(&format!("fault dry run failed: code {:?} timed_out {}", dry.code, dry.timed_out));
    }
    let kmax = count_eligible(&dry.trace);
    let _ = std::fs::remove_dir_all(&db0);
    let errno = if case.enospc { 28 } else { 5 };
    let ks: Vec<u64> = match case.only_k {
        Some(k) => vec![k],
        None => (1..=kmax).collect(),
    };
    for k in ks {
        let db = scratch.path.join("db");
        let _ = std::fs::remove_dir_all(&db);
        copy_tree(&template, &db);
        let mut run = run_worker(&db, &work, "f", &script, ShimMode::FailAt { k, errno }, Duration::from_secs(20));
        if run.timed_out {
            // confirm twice more before calling it a hang
            let mut timeouts = 1;
            for _ in 0..2 {
                let _ = std::fs::remove_dir_all(&db);
                copy_tree(&template, &db);
                run = run_worker(&db, &work, "f", &script, ShimMode::FailAt { k, errno }, Duration::from_secs(20));
                if run.timed_out {
                    timeouts += 1;
                } else {
                    break;
                }
            }
            if timeouts == 3 {
                let root = db.to_string_lossy().to_string();
                let site = site_of(&run.trace, &root).map(|x| x.1).unwrap_or_default();
                fail!(format!("fault/hang@{site}"), "k={k}: the worker did not finish within 20 s in three consecutive runs");
            }
            if run.timed_out {
                harness_exit("fault run timed out intermittently");
            }
        }
        meta.evals += 1;
        let mut one = CaseMeta::default();
        let res = judge::<K>(&FaultCase { only_k: Some(k), ..case.clone() }, &run, &db, k, &mut one);
        meta.classes.extend(one.classes);
        match res {
            Ok(nontrivial) => {
                if nontrivial {
                    let mut h = blake3::Hasher::new();
                    h.update(&case_hash.to_le_bytes());
                    h.update(&k.to_le_bytes());
                    meta.nontrivial.push(u64::from_le_bytes(h.finalize().as_bytes()[..8].try_into().unwrap()));
                }
            }
            Err(f) => {
                if is_known(&f.sig) {
                    meta.known_hits.push(f.sig);
                } else {
                    return Err(f);
                }
            }
        }
    }
    Ok(meta)
}

pub fn run_fault_dyn(case: &FaultCase, is_known: &(dyn Fn(&str) -> bool + Sync)) -> R<CaseMeta> {
    crate::with_key_type!(case.cfg.kt.as_str(), run_fault(case, is_known))
}
