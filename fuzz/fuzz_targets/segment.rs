#![no_main]
//! C16: the framed segment reader is total; every record it yields is a checksummed frame of the input.
use libfuzzer_sys::fuzz_target;
use std::io::Write;

fuzz_target!(|data: &[u8]| {
    // headers announcing more than 1 MiB of payload only make the reader allocate a large zeroed
    // buffer before failing with a short read (under ASan that costs ~100 ms each): skip such inputs
    let mut p = 0usize;
    while p + 44 <= data.len() {
        let ver = u64::from_le_bytes(data[p..p + 8].try_into().unwrap());
        if ver == 0 {
            break;
        }
        let len = u32::from_le_bytes(data[p + 40..p + 44].try_into().unwrap()) as usize;
        if len > (1 << 20) {
            return;
        }
        if len == 0 {
            break;
        }
        p += 44 + len;
    }
    let dir = std::env::temp_dir().join(format!("cass-fuzz-seg-{}", std::process::id()));
    let _ = std::fs::create_dir_all(&dir);
    let f = dir.join("0_index.wal");
    std::fs::File::create(&f).unwrap().write_all(data).unwrap();
    if let Ok(recs) = cassadilia::verif::read_segment(&f) {
        let mut p = 0usize;
        for (ver, payload) in recs {
            assert!(ver != 0);
            let mut frame = Vec::new();
            frame.extend_from_slice(&ver.to_le_bytes());
            frame.extend_from_slice(blake3::hash(&payload).as_bytes());
            frame.extend_from_slice(&(payload.len() as u32).to_le_bytes());
            frame.extend_from_slice(&payload);
            assert!(data.len() >= p + frame.len() && data[p..p + frame.len()] == frame[..], "reader invented a record");
            p += frame.len();
        }
    }
});
