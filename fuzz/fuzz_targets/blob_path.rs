#![no_main]
//! C16/C18: blob path and hex decoders are total; an accepted path is exactly the canonical path of its hash.
use cassadilia::BlobHash;
use libfuzzer_sys::fuzz_target;
use std::path::Path;

fuzz_target!(|data: &[u8]| {
    if let Ok(s) = std::str::from_utf8(data) {
        if let Ok(h) = BlobHash::from_hex(s) {
            assert!(h.to_hex().eq_ignore_ascii_case(s));
        }
        if let Ok(h) = BlobHash::from_relative_path(Path::new(s)) {
            let canon = h.relative_path();
            let canon = canon.to_str().unwrap();
            // compare path components, not characters: "a/b/c/" and "a//b/c" are the same path
            let comps: Vec<String> = Path::new(s).components().map(|c| c.as_os_str().to_string_lossy().to_string()).collect();
            let last3 = comps[comps.len().saturating_sub(3)..].join("/");
            assert!(last3 == canon, "accepted path {s:?} is not the canonical path {canon:?} of its hash");
            assert_eq!(BlobHash::from_relative_path(Path::new(canon)).unwrap(), h);
        }
    }
    if data.len() == 32 {
        let h = BlobHash::from_bytes(data.try_into().unwrap());
        let p = h.relative_path();
        assert_eq!(BlobHash::from_relative_path(&p).unwrap(), h);
        assert_eq!(BlobHash::from_hex(&h.to_hex()).unwrap(), h);
    }
});
