#![no_main]
//! C16: the WAL-op decoder is total; what it accepts re-encodes and re-decodes to the same value;
//! typed conversion is total and round-trips.
use cassadilia::verif::{deserialize_wal_op_raw, serialize_wal_op_raw};
use cassadilia::{WalOp, WalOpRaw};
use libfuzzer_sys::fuzz_target;

fn eq(a: &WalOpRaw, b: &WalOpRaw) -> bool {
    match (a, b) {
        (WalOpRaw::Put { key_bytes: k1, hash: h1, size: s1 }, WalOpRaw::Put { key_bytes: k2, hash: h2, size: s2 }) => k1 == k2 && h1 == h2 && s1 == s2,
        (WalOpRaw::Remove { keys_bytes: a }, WalOpRaw::Remove { keys_bytes: b }) => a == b,
        _ => false,
    }
}

fn typed<K: cassadilia::KeyBytes + PartialEq + std::fmt::Debug>(raw: &WalOpRaw) {
    if let Ok(op) = WalOp::<K>::from_raw(raw.clone()) {
        let back = op.to_raw();
        assert!(eq(&back, raw), "to_raw(from_raw(x)) != x");
        assert_eq!(WalOp::<K>::from_raw(back).ok(), Some(op));
    }
}

fuzz_target!(|data: &[u8]| {
    if let Ok(op) = deserialize_wal_op_raw(data) {
        let re = serialize_wal_op_raw(&op).expect("re-encode");
        assert!(re.len() <= data.len(), "decoded value is larger than its input");
        let op2 = deserialize_wal_op_raw(&re).expect("re-decode");
        assert!(eq(&op, &op2), "re-encode round trip");
        typed::<String>(&op);
        typed::<Vec<u8>>(&op);
        typed::<[u8; 3]>(&op);
        typed::<u64>(&op);
        typed::<i32>(&op);
        typed::<u8>(&op);
        typed::<i128>(&op);
    }
});
