#![no_main]
//! C16: the snapshot decoder is total; accepted snapshots re-encode stably.
use cassadilia::verif::{deserialize_index_state, serialize_index_state};
use libfuzzer_sys::fuzz_target;

fuzz_target!(|data: &[u8]| {
    if let Ok((map, ver)) = deserialize_index_state(data) {
        let re = serialize_index_state(&map, ver);
        assert!(re.len() <= data.len(), "decoded snapshot is larger than its input");
        let (m2, v2) = deserialize_index_state(&re).expect("re-decode");
        assert!(m2 == map && v2 == ver, "re-encode round trip");
    }
});
