#!/bin/bash
# runseeded.sh <ID> <check ids...> : apply /verif/seeded/<ID>/patch.diff to /repo, run quick checks, undo.
ID=$1; shift
unset CARGO_TARGET_DIR
cd /verif
git -C /repo apply /verif/seeded/$ID/patch.diff 2>/dev/null || git -C /repo apply --3way /verif/seeded/$ID/patch.diff || { echo "APPLY-FAILED $ID"; exit 3; }
for c in "$@"; do
  out=$(VERIF_SEED=${VERIF_SEED:-0} ./check $c quick 2>&1); rc=$?
  echo "seeded-$ID check $c rc=$rc $(echo "$out" | grep -m1 'signature:' | sed 's/^ *//') | $(echo "$out" | tail -1 | cut -c1-120)"
done
git -C /repo checkout -- .; git -C /repo clean -fdq src/ tests/ examples/ 2>/dev/null
git -C /verif checkout -- evidence 2>/dev/null; git -C /verif clean -fdq replays/ 2>/dev/null
