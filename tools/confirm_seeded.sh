#!/bin/bash
# confirm_seeded.sh <ID> [<check ids>...] : verify a sub-agent's seeded change in its worktree /tmp/wt/<ID>,
# store it under /verif/seeded/<ID>/, run the given quick checks against it in /repo, undo, remove the worktree.
ID=$1; shift; CHECKS="$@"; [ -z "$CHECKS" ] && CHECKS=$ID
WTBASE=${WTBASE:-/tmp/wt}; WT=$WTBASE/$ID; OUT=/verif/seeded/$ID${SUFFIX:-}; LOG=$WTBASE/confirm_$ID.log
[ -f $WT/seeded/patch.diff ] || { echo "no patch in $WT/seeded"; exit 1; }
export CARGO_NET_OFFLINE=true CARGO_TARGET_DIR=$WT/target
cd $WT
RUN=$(head -1 seeded/demo/run.txt 2>/dev/null)
echo "== demo command: $RUN" | tee $LOG
echo "== existing suite with the change" | tee -a $LOG
cargo test --offline --lib -- --test-threads 8 2>&1 | grep -E "^test .*FAILED|^test result" | tee -a $LOG
echo "== demo with the change (must fail)" | tee -a $LOG
( eval "$RUN" ) >> $LOG.demo1 2>&1; echo "demo rc with change: $?" | tee -a $LOG
echo "== demo without the change (must pass)" | tee -a $LOG
git apply -R seeded/patch.diff || echo "REVERSE APPLY FAILED" | tee -a $LOG
( eval "$RUN" ) >> $LOG.demo2 2>&1; echo "demo rc without change: $?" | tee -a $LOG
git apply seeded/patch.diff || echo "RE-APPLY FAILED" | tee -a $LOG
mkdir -p $OUT && cp -r seeded/patch.diff seeded/demo $OUT/ 2>/dev/null; cp seeded/meta.json $OUT/meta.agent.json 2>/dev/null
if [ -n "$NOCHECK" ]; then cp $LOG $OUT/confirm.log; exit 0; fi
echo "== my checks against the change" | tee -a $LOG
unset CARGO_TARGET_DIR
cd /verif
if git -C /repo apply --check $OUT/patch.diff 2>/dev/null; then
  git -C /repo apply $OUT/patch.diff
  for c in $CHECKS; do
    out=$(VERIF_SEED=${VERIF_SEED:-0} ./check $c quick 2>&1); rc=$?
    echo "check $c rc=$rc $(echo "$out" | grep -m1 'signature:' | sed 's/^ *//')" | tee -a $LOG
  done
  git -C /repo checkout -- .
  git -C /verif checkout -- evidence 2>/dev/null; git -C /verif clean -fdq replays/ 2>/dev/null
else
  echo "PATCH DOES NOT APPLY to /repo HEAD" | tee -a $LOG
fi
cp $LOG $OUT/confirm.log
