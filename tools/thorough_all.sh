#!/bin/bash
# Runs every thorough check once against a snapshot of /repo (used with `vp run --with-repo`).
# usage: tools/thorough_all.sh <repo-path> [ids...]
REPO=${1:-/repo}; shift
IDS="$@"; [ -z "$IDS" ] && IDS="C01 C02 C06 C07 C09 C10 C12 C13 C15 C17 C18 C20 C04 C11 C16 C19 C08 C03 C05 C14"
if [ "$REPO" != "/repo" ]; then
  sed -i "s|path = \"/repo\"|path = \"$REPO\"|" harness/Cargo.toml fuzz/Cargo.toml
  cp $REPO/Cargo.lock harness/Cargo.lock.repo 2>/dev/null
fi
for id in $IDS; do
  start=$(date +%s)
  out=$(./check $id thorough 2>&1); rc=$?
  echo "THOROUGH $id rc=$rc secs=$(( $(date +%s) - start )) $(echo "$out" | grep -v '^proptest' | grep -E "^$id thorough|libfuzzer:" | tr '\n' ' ' | cut -c1-260)"
  if [ $rc != 0 ]; then echo "$out" | grep -v '^proptest' | tail -8 | cut -c1-600; fi
done
