#!/usr/bin/env python3
"""mkmutant.py NAME FILE OLD NEW [FILE OLD NEW ...]  -> writes /verif/mutants/NAME.diff (repo left clean)"""
import sys, subprocess
name = sys.argv[1]; args = sys.argv[2:]
assert subprocess.run(["git","-C","/repo","status","--porcelain","--untracked-files=no"],capture_output=True,text=True).stdout.strip()=="" , "repo dirty"
for i in range(0, len(args), 3):
    f, old, new = args[i:i+3]
    p = "/repo/" + f; s = open(p).read()
    assert s.count(old) >= 1, f"anchor not found in {f}: {old!r}"
    s = s.replace(old, new, 1); open(p, "w").write(s)
d = subprocess.run(["git","-C","/repo","diff"],capture_output=True,text=True).stdout
open(f"/verif/mutants/{name}.diff","w").write(d)
subprocess.run(["git","-C","/repo","checkout","--","."],check=True)
print("wrote", name, len(d.splitlines()), "lines")
