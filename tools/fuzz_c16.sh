#!/bin/bash
# Thorough tier of C16: libFuzzer campaigns on the four decoder targets (fixed work: -runs, seeded).
# usage: fuzz_c16.sh <runs-per-job> <seed>   exit 0 ok / 1 crash found (prints VIOLATION) / 2 cannot build
HERE=/verif; RUNS=${1:-300000}; SEED=${2:-1}
export CARGO_NET_OFFLINE=true
cd $HERE/harness
if ! cargo +nightly fuzz build --fuzz-dir $HERE/fuzz >$HERE/.fuzzbuild.log 2>&1; then
  echo "HARNESS-ERROR: cargo fuzz build failed (see .fuzzbuild.log)" >&2; tail -5 $HERE/.fuzzbuild.log >&2; exit 2
fi
BIN=$HERE/target/x86_64-unknown-linux-gnu/release
W=/dev/shm/cassverif-fuzz-$$; [ -d /dev/shm ] || W=$HERE/.scratch/fuzz-$$
rm -rf $W; mkdir -p $W/seed
$HERE/target/release/vcheck gen-corpus $W/seed
rc=0; total=0
for t in wal_op index_state blob_path segment; do
  for j in 1 2 3; do
    ( mkdir -p $W/$t-$j/corpus $W/$t-$j/art
      if [ $j != 3 ]; then cp $W/seed/$t/* $W/$t-$j/corpus/ 2>/dev/null; fi   # job 3 starts from an empty corpus
      cd $W/$t-$j
      # the op / snapshot / path decoders must not allocate beyond their input (C16): a 512 MiB single
      # allocation is a crash. The framed segment reader sizes its payload buffer from the record
      # header (up to 4 GiB, zeroed and untouched until read); that is outside the statement.
      ML=512; [ $t = segment ] && ML=8192
      TMPDIR=$W/$t-$j $BIN/$t corpus -runs=$RUNS -seed=$((SEED*10+j)) -max_len=4096 -len_control=0 \
          -malloc_limit_mb=$ML -rss_limit_mb=8192 -timeout=20 -artifact_prefix=art/ -print_final_stats=1 > log 2>&1
      echo $? > rc ) &
  done
done
wait
mkdir -p $HERE/replays/C16
for d in $W/*-*/; do
  t=$(basename $d)
  r=$(cat $d/rc 2>/dev/null || echo 99)
  n=$(grep -a "stat::number_of_executed_units" $d/log | awk '{print $2}'); total=$((total + ${n:-0}))
  if [ "$r" != 0 ]; then
    for a in $d/art/*; do
      [ -f "$a" ] || continue
      dst=$HERE/replays/C16/fuzz-$t-$(basename $a)
      cp "$a" "$dst"
      echo "VIOLATION property=C16 replay=$dst"
      grep -a -m3 -E "panicked|ERROR: libFuzzer|SUMMARY" $d/log | sed 's/^/  /'
      rc=1
    done
    if [ $rc = 0 ]; then echo "HARNESS-ERROR: fuzz job $t exited with $r without an artifact" >&2; tail -5 $d/log >&2; rc=2; fi
  fi
done
echo "libfuzzer: 12 jobs (4 targets x [2 seeded + 1 empty corpus]), $total executions, seed $SEED, runs/job $RUNS, rc=$rc"
echo $total > $HERE/.fuzz_total
rm -rf $W
exit $rc
