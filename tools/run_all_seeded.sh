#!/bin/bash
# Re-runs every stored seeded change (seeded/<dir>/patch.diff) against the quick check(s) recorded in its
# meta.json under "caught_by"; prints one line per (change, check). /repo is restored after each.
# usage: [ALL=1] tools/run_all_seeded.sh [dir-name ...]   (default: all changes, first recorded check only)
cd /verif
DIRS="$@"; [ -z "$DIRS" ] && DIRS=$(ls seeded)
for d in $DIRS; do
  [ -f seeded/$d/patch.diff ] || continue
  checks=$(python3 -c "import json,sys; m=json.load(open('seeded/$d/meta.json')); ks=list(m.get('caught_by',{}).keys()); print(' '.join(ks if '$ALL' else ks[:1]))" 2>/dev/null)
  [ -z "$checks" ] && checks=$(echo $d | cut -c1-3)
  tools/runseeded.sh $d $checks 2>&1 | grep -E "seeded-|APPLY-FAILED" | sed -E 's/rc=1/CAUGHT rc=1/; s/rc=0/MISSED rc=0/' | cut -c1-170
done
