#!/bin/bash
# Re-runs every hand-made mutant against the checks that are expected to catch it (see SENSITIVITY.md).
cd /verif
run() { m=$1; shift; tools/runmutant.sh mutants/$m.diff "$@" 2>&1 | grep -E "CAUGHT|MISSED|ERROR|APPLY"; }
run e1_remove_true C01
run e1_samehash_repoint C01 C07 C12
run e1_total_bytes_newsize C12
run e1_prune_le C02 C20
run e1_remove_no_unref C07
run e1_size_assign C18 C01
run e1_segid_div C20
run e1_rr_unbounded_end C01
run e2_no_staging_sync C09
run e2_no_wal_sync C09
run e2_no_atomic_sync C09
run e2_prune_before_snapshot C03 C20
run e2_snapshot_in_place C03 C20
run e2_sentinel_twice C20
run e2_rename_before_sync C09
run m_c17_noclamp C17
run m_c17_u32 C17
run m_c19_version_le C19
run m_c19_use_config_pre C19
run m_c19_validate_late C19
run m_c10_nochecksum C10
run m_c16_with_capacity C16
run m_c16_keylen_u16 C16
run m_c16_i64_be C16
run m_e3_no_retain_remove C04 C08
run m_e3_orphan_no_intent C04 C08
run m_e3_checkpoint_wal_first C15
run m_e3_end_late C07
run m_e3_release_before_delete C04 C05
run m_e3_register_after_rename C04 C08
run m_e3_remove_state_before_intents C15
run m_c11_lock_ignored C11
run m_c11_lock_late C11
