#!/usr/bin/env python3
"""Regenerates /verif/MANIFEST.json from the table below (keeps it valid at all times)."""
import json, os, subprocess
HERE = os.path.dirname(os.path.dirname(os.path.abspath(__file__)))

# id -> (engine, category, technique, text, note)
CLAIMED = {
 "C01": ("E1", "exploration", "stateful model-based property testing (proptest histories vs ordered-map model)",
         "Every read API is compared with an ordered-map reference model after every step of generated sequential histories over all key types and configurations; failures shrink to a minimal history.",
         "Model, generators and tmpfs semantics trusted; no proof of absence."),
 "C02": ("E1", "exploration", "stateful model-based property testing with restart steps",
         "Observable snapshot (contents, sizes, refcounts, stats) before a clean drop must equal the one after reopen and the model, for generated histories with reopen/checkpoint at all positions relative to segment boundaries.",
         "stats.index.serialized_size_bytes is excluded (snapshot file size legitimately changes when a reopen replays)."),
 "C06": ("E1", "exploration", "invariant over generated histories: blake3(file)==path for every CAS file; long-lived reader round-trip",
         "After every step every file under cas/ must hash to its path; readers opened before overwrite/removal must stream the original bytes.",
         "Sequential part only so far."),
 "C07": ("E1", "exploration", "model-based: cas/ listing == live content set after every step",
         "Directory listing of cas/ and staging/ is compared with the model's live set after every step of generated histories biased to refcount transitions.",
         "Cases in which a call returned Err are discarded (the statement excludes failures)."),
 "C12": ("E1", "exploration", "model-based: refcounts/stats/sizes vs model after every step and reopen",
         "known_blobs, contains_blob_hash, stats.cas, item sizes are compared with values derived from the model after every step and reopen.",
         "Built with overflow checks so counter underflow panics."),
 "C13": ("E1", "exploration", "differential before/after abort over generated histories",
         "Begin/Write/Abort must not change log, index, CAS listing or any observable; staging file must go; later commits on the key unaffected; same after reopen.",
         "Sequential part only so far."),
 "C18": ("E1", "exploration", "round-trip: committed item == {blake3(content), len}, file at harness-derived path, over generated chunkings",
         "For generated contents and chunkings the committed hash/size/location are compared with values the harness derives independently.",
         "blake3 crate one-shot hashing trusted."),
 "C20": ("E1", "exploration", "independent decoder of the on-disk format applied after every step",
         "An independent reader parses index and segments strictly after every step, checks version order/range/no-reuse across restarts and that snapshot+log decode to the model.",
         "Sequential part only so far."),
}
PENDING_REASON = "check under construction in this session (engine not built yet); not claimed until it runs"

props = [json.loads(l) for l in open(os.path.join(HERE, "properties.jsonl"))]
def hook_commits():
    try:
        out = subprocess.check_output(["git", "-C", "/repo", "log", "--format=%H %s"], text=True)
        return [l.split()[0] for l in out.splitlines() if l.split(" ", 1)[1].startswith("verif:")]
    except Exception:
        return []
m = {
 "version": 1,
 "setup_cmd": "./setup.sh",
 "hooks": {
   "guard": "cargo feature `verif` of the cassadilia crate",
   "enable": "harness/Cargo.toml depends on cassadilia = { path = \"/repo\", features = [\"verif\"] }",
   "baseline_off_cmd": "cd /repo && cargo test --workspace --no-fail-fast --offline",
   "source_commits": hook_commits(),
   "add_only": True,
 },
 "engines": [
   {"name": "vcheck", "path": "harness/", "serves_properties": sorted(CLAIMED), "kind_free_text": "Rust binary: proptest generators, model, independent on-disk reader, sequential/crash/fault/scheduler engines"},
 ],
 "checks": [],
 "not_applicable": [],
 "notes": "All checks: ./check <ID> [quick|thorough]; exit 0 held / 1 VIOLATION / 2 harness problem. VERIF_SEED selects the PRNG stream.",
}
for p in props:
    i = p["id"]
    if i in CLAIMED:
        eng, cat, tech, text, note = CLAIMED[i]
        m["checks"].append({
          "property_id": i, "quick_cmd": f"./check {i} quick", "thorough_cmd": f"./check {i} thorough",
          "evidence_file": f"/verif/evidence/{i}.json", "replay_cmd_template": "./check --replay {path}",
          "engine": eng, "level_claimed": {"category": cat, "text": text, "design_ref": f"DESIGN.md §5 {i}"},
          "level_note": note, "technique": tech})
    else:
        m["not_applicable"].append({"property_id": i, "reason": PENDING_REASON})
json.dump(m, open(os.path.join(HERE, "MANIFEST.json"), "w"), indent=1)
print("claimed", len(m["checks"]), "pending", len(m["not_applicable"]))
