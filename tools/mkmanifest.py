#!/usr/bin/env python3
"""Regenerates /verif/MANIFEST.json from the table below (keeps it valid at all times)."""
import json, os, subprocess
HERE = os.path.dirname(os.path.dirname(os.path.abspath(__file__)))

# id -> (engine, category, technique, text, note)
CLAIMED = {
 "C01": ("E1", "exploration", "stateful model-based property testing (proptest histories vs ordered-map model)",
         "Every read API is compared with an ordered-map reference model after every step of generated sequential histories over all key types and configurations; failures shrink to a minimal history.",
         "Model, generators and tmpfs semantics trusted; no proof of absence."),
 "C02": ("E1", "exploration", "stateful model-based property testing with restart steps",
         "Observable snapshot (contents, sizes, refcounts, stats) before a clean drop must equal the one after reopen and the model, for generated histories with reopen/checkpoint at all positions relative to segment boundaries.",
         "stats.index.serialized_size_bytes is excluded (snapshot file size legitimately changes when a reopen replays)."),
 "C03": ("E2", "fault_enumeration", "crash-point enumeration over traced syscalls of generated epoch chains; recovery judged against model of acknowledged ops",
         "A worker process runs generated histories under an LD_PRELOAD trace shim; every state between two mutating filesystem calls (incl. initialisation, recovery, checkpoint, pruning) is reconstructed and recovered in-process; recovered map must equal acknowledged ops with the in-flight op all-or-nothing; chains continue from crash images. A bulk-range part cuts a single remove_range over up to 2600 keys.",
         "Process-kill model (completed calls persist, write calls atomic); trace model validated per run against the real directory and against real kills at sampled cuts."),
 "C04": ("E3", "exploration", "deterministic-schedule exploration (generated programs x generated schedules) with an index->blob invariant at every step",
         "Real threads run generated small concurrent programs under a scheduler that owns every index-lock acquisition and commit/unlink step (hooks, feature verif); at each step every visible key must resolve to an intact blob.",
         "Interleavings are explored at yield-point granularity; random-walk and PCT schedules, not exhaustive."),
 "C05": ("E3", "exploration", "deterministic-schedule exploration + linearizability checking (Wing-Gong search) of recorded histories",
         "Reader/writer programs under generated schedules (random walk, PCT, preemption at interesting points, explicit context switches) plus a systematic enumeration of all schedules with at most two preemptions / context switches per generated program; no read may fail or return partial bytes; the history with a final read-all must be linearizable with two-point semantics for remove/remove_range. A free-running stress part (atomic-register check, hot-key hammering) covers code between yield points.",
         "Scheduler: yield-point granularity, histories <= 12 calls; stress part is probabilistic and not deterministically replayable."),
 "C06": ("E1+E2+E3", "exploration", "invariant blake3(file)==path checked after every step / at every crash cut / at every scheduling step; long-lived reader round-trip; trace check: no write-open under cas/",
         "Sequential histories, every kill cut of traced epoch chains, and every scheduling step of concurrent programs are inspected: each file under cas/ must sit at a canonical path and hash to it; old readers stream original bytes. A cross-filesystem shard part (first-level CAS directories symlinked to another filesystem) checks that no blob path is ever opened for writing.",
         "Kill model for crash cuts (write calls atomic)."),
 "C07": ("E1+E3", "exploration", "model-based: cas/ listing == live content set after every sequential step and at the end of every schedule",
         "Directory listing of cas/ and staging/ is compared with the model's live set after every step of generated histories and at quiescence of generated concurrent programs.",
         "Cases in which a call returned Err are discarded (the statement excludes failures)."),
 "C08": ("E2+E3", "exploration", "differential: OrphanStats vs independent directory/index diff on every crash image; clean-up effects checked; clean-up raced with puts under generated schedules",
         "Every kill image of generated epoch chains is opened with recovery+verification; OrphanStats must equal an independent diff; delete_orphans must remove exactly the garbage and harm nothing; orphan clean-up racing puts/removes is explored by the scheduler.",
         "Planted-damage classes beyond what crashes produce are covered by the planted part of the check."),
 "C09": ("E2", "fault_enumeration", "crash-point x lost-unsynced-subset enumeration over traced syscalls (Sync mode)",
         "For every cut of traced Sync-mode epoch chains and every non-empty subset of files with bytes not covered by fsync/fdatasync, the rolled-back image is recovered and judged with the C03 oracle.",
         "The property's own model: whole unsynced suffix lost per file, directory operations durable and ordered."),
 "C10": ("in-process", "fault_enumeration", "enumeration of truncation offsets and single-byte alterations of real logs produced by generated histories; differential against independent decoder",
         "Logs written by generated histories are truncated at (nearly) every offset and altered byte-wise in checksum/payload fields; open must fail or yield exactly the longest-undamaged-prefix state; never panic.",
         "Quick tier samples offsets away from record boundaries; thorough enumerates all."),
 "C11": ("race plans", "exploration", "generated race plans over threads and processes with a monotonic-clock interval oracle; traced loser under the LD_PRELOAD shim; kill/clone scenarios",
         "Contending opens from threads and processes at generated offsets: outcomes must be Ok or AlreadyOpened and holding intervals disjoint; a traced losing open must not perform a successful mutating call except opening LOCK and must leave the directory identical; clones/OrphanStats keep the directory owned; drop or SIGKILL releases it.",
         "Timings are not controlled (stress-style search with a sound oracle); a fork/exec artefact of the multi-threaded harness is absorbed by retrying 'must succeed' opens for at most 300 ms."),
 "C12": ("E1+E2", "exploration", "model-based: refcounts/stats/sizes vs model after every step and reopen; internal consistency after every crash recovery",
         "known_blobs, contains_blob_hash, stats.cas, item sizes are compared with values derived from the model after every step and reopen, and with the recovered map after recovery of every kill image.",
         "Built with overflow checks so counter underflow panics."),
 "C13": ("E1+E3", "exploration", "differential before/after abort over generated histories; aborts raced with puts under generated schedules",
         "Begin/Write/Abort must not change log, index, CAS listing or any observable; staging file must go; later commits on the key unaffected; same after reopen; concurrent aborts are no-ops in a linearizable history.",
         "-"),
 "C14": ("E2", "fault_enumeration", "fault injection at every eligible filesystem call of generated histories; uncertainty model {old,new} for failed ops",
         "For each generated history and EVERY eligible call index one worker run with that call failing (EIO/ENOSPC, no side effect); no panic/hang; later results, state before close, reopen and state after reopen must be consistent with the uncertainty model.",
         "Faults during open itself are outside the statement; a hang is a 20 s watchdog confirmed three times."),
 "C15": ("E3", "exploration", "deterministic-schedule exploration with exact all-blocked detection + lock-order graph with gate refinement",
         "Checkpoint/rollover/clean-up heavy programs under generated schedules; the scheduler knows which parked worker can be granted its lock, so 'unfinished workers, none grantable' is an exact deadlock witness; lock-order edges from all runs must be acyclic (gate-free).",
         "Safety form of liveness at yield-point granularity; blocking on un-hooked primitives is only caught by the watchdog."),
 "C16": ("in-process", "exploration", "round-trip and totality property tests over structured values, exhaustive short byte strings, mutations of valid encodings; allocation bound by counting allocator",
         "Encoders are compared with an independent encoder of the documented format and round-tripped; decoders are fed exhaustive/random/mutated bytes and must not panic, must re-encode stably and must not allocate beyond 64x input + 4 KiB.",
         "Allocation statement interpreted as linear-in-input, independent of embedded counts (DESIGN section 9)."),
 "C17": ("in-process", "exploration", "exhaustive small cube + boundary grid + random triples against slice oracle; allocation bound",
         "get_range is compared with content[min(s,L)..min(e,L)] for exhaustive small and boundary (L,start,end) and random triples; inverted ranges inside the blob must be rejected; allocation <= L + 8 KiB.",
         "start > end >= L is unspecified by the statement and not judged."),
 "C18": ("E1", "exploration", "round-trip: committed item == {blake3(content), len}, file at harness-derived path, over generated chunkings; path bijection cases in C16's path law",
         "For generated contents and chunkings the committed hash/size/location are compared with values the harness derives independently.",
         "blake3 crate one-shot hashing trusted."),
 "C19": ("in-process", "exploration", "enumeration of all (N_create,N_reopen) pairs and stored versions over generated histories; byte-for-byte directory diff; pre-create differential",
         "Mismatching opens must fail with a settings error and leave the directory identical; matching opens see the model; pre-created and on-demand directory trees behave identically and the stored choice wins; a creation with a pre-created tree killed at generated points must leave a store that opens and works.",
         "-"),
 "C20": ("E1+E2", "exploration", "independent decoder of the on-disk format applied after every sequential step and at every crash cut",
         "An independent reader parses index and segments strictly after every step and at every kill cut, checks version order/range/no-reuse across restarts and that snapshot+log decode to the acknowledged history.",
         "Kill model for cuts."),
}
PENDING_REASON = "check under construction in this session (race-plan engine for concurrent opens not built yet); not claimed until it runs"

props = [json.loads(l) for l in open(os.path.join(HERE, "properties.jsonl"))]
def hook_commits():
    try:
        out = subprocess.check_output(["git", "-C", "/repo", "log", "--format=%H %s"], text=True)
        return [l.split()[0] for l in out.splitlines() if l.split(" ", 1)[1].startswith("verif:")]
    except Exception:
        return []
m = {
 "version": 1,
 "setup_cmd": "./setup.sh",
 "hooks": {
   "guard": "cargo feature `verif` of the cassadilia crate",
   "enable": "harness/Cargo.toml depends on cassadilia = { path = \"/repo\", features = [\"verif\"] }",
   "baseline_off_cmd": "cd /repo && cargo test --workspace --no-fail-fast --offline",
   "source_commits": hook_commits(),
   "add_only": True,
 },
 "engines": [
   {"name": "vcheck", "path": "harness/", "serves_properties": sorted(CLAIMED), "kind_free_text": "Rust binary: proptest generators, model, independent on-disk reader, sequential (E1), crash/power-loss/fault (E2, LD_PRELOAD shim shim/fsshim.c, fork server), deterministic scheduler + linearizability + stress (E3), in-process enumerations"},
   {"name": "libfuzzer", "path": "fuzz/", "serves_properties": ["C16"], "kind_free_text": "cargo-fuzz targets wal_op, index_state, blob_path, segment; run by ./check C16 thorough (tools/fuzz_c16.sh)"},
 ],
 "checks": [],
 "not_applicable": [],
 "notes": "All checks: ./check <ID> [quick|thorough]; exit 0 held / 1 VIOLATION / 2 harness problem. VERIF_SEED selects the PRNG stream.",
}
for p in props:
    i = p["id"]
    if i in CLAIMED:
        eng, cat, tech, text, note = CLAIMED[i]
        m["checks"].append({
          "property_id": i, "quick_cmd": f"./check {i} quick", "thorough_cmd": f"./check {i} thorough",
          "evidence_file": f"/verif/evidence/{i}.json", "replay_cmd_template": "./check --replay {path}",
          "engine": eng, "level_claimed": {"category": cat, "text": text, "design_ref": f"DESIGN.md §5 {i}"},
          "level_note": note, "technique": tech})
    else:
        m["not_applicable"].append({"property_id": i, "reason": PENDING_REASON})
json.dump(m, open(os.path.join(HERE, "MANIFEST.json"), "w"), indent=1)
print("claimed", len(m["checks"]), "pending", len(m["not_applicable"]))
