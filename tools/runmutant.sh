#!/bin/sh
# runmutant.sh <diff> <ID> [<ID>...] : apply to /repo, run quick checks, revert. Prints CAUGHT/MISSED per id.
D=$(realpath "$1"); shift
git -C /repo apply "$D" || { echo "APPLY-FAILED $D"; exit 3; }
for id in "$@"; do
  out=$(cd /verif && VERIF_SEED=${VERIF_SEED:-0} ./check "$id" quick 2>&1); rc=$?
  sig=$(echo "$out" | grep -m1 'signature:' | sed 's/^ *//')
  case $rc in 1) echo "CAUGHT $(basename $D .diff) $id $sig";; 0) echo "MISSED $(basename $D .diff) $id";; *) echo "ERROR($rc) $(basename $D .diff) $id: $(echo "$out" | tail -3)";; esac
done
git -C /repo checkout -- .; git -C /repo clean -fdq src/ tests/ examples/ 2>/dev/null
# evidence files were rewritten by runs against a mutant: restore the committed ones
git -C /verif checkout -- evidence 2>/dev/null
git -C /verif clean -fdq replays/ 2>/dev/null
true
