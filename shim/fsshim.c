// fsshim.so — LD_PRELOAD interposer used by the E2 engine (see DESIGN.md §3.5, A.1).
//
// Only calls that touch paths / fds under VSHIM_ROOT are recorded or altered.
//   VSHIM_ROOT=<abs dir>      required
//   VSHIM_LOG=<file>          trace: one line per call (see format below)
//   VSHIM_CRASH_AT=<k>        _exit(137) immediately before the k-th mutating call (k >= 1)
//   VSHIM_FAIL_AT=<k>         after the "ARM" marker, the k-th eligible call (mutating or sync) fails
//   VSHIM_FAIL_ERRNO=<n>      errno for the injected failure (default EIO)
//
// line: <seq> <mseq> <tid> <kind> ...   (mseq = index of this call among mutating calls, 0 if not mutating)
//   open <ret|-errno> <flags-hex> <path>
//   write <fd> <ret|-errno> <hexdata-actually-written>
//   pwrite <fd> <ret|-errno> <offset> <hexdata>
//   sync <fd> <ret|-errno> <f|d>
//   rename <ret|-errno> <old>\t<new>
//   unlink|mkdir|rmdir <ret|-errno> <path>
//   trunc <fd> <ret|-errno> <len>
//   close <fd>
//   mark <text>
//   inject <k> <errno>      (precedes the failed call's own line)

#define _GNU_SOURCE
#include <dlfcn.h>
#include <errno.h>
#include <fcntl.h>
#include <pthread.h>
#include <stdarg.h>
#include <stdint.h>
#include <stdio.h>
#include <stdlib.h>
#include <string.h>
#include <sys/mman.h>
#include <sys/stat.h>
#include <sys/syscall.h>
#include <sys/types.h>
#include <sys/uio.h>
#include <unistd.h>

#define MARK_FD (-7777)
#define MAXFD 8192

static char root[4096];
static size_t rootlen = 0;
static int logfd = -1;
static long seq = 0, mseq = 0;
static long crash_at = -1, fail_at = -1, elig = 0;
static int fail_errno = EIO, armed = 0;
static pthread_mutex_t mu = PTHREAD_MUTEX_INITIALIZER;
static char *fdpath[MAXFD];

static long raw_write(int fd, const void *b, size_t n) { return syscall(SYS_write, fd, b, n); }

__attribute__((constructor)) static void shim_init(void) {
    const char *r = getenv("VSHIM_ROOT");
    if (!r || !*r) return;
    strncpy(root, r, sizeof(root) - 1);
    rootlen = strlen(root);
    while (rootlen > 1 && root[rootlen - 1] == '/') root[--rootlen] = 0;
    const char *l = getenv("VSHIM_LOG");
    if (l && *l) logfd = (int)syscall(SYS_openat, AT_FDCWD, l, O_WRONLY | O_CREAT | O_APPEND | O_CLOEXEC, 0644);
    const char *c = getenv("VSHIM_CRASH_AT");
    if (c && *c) crash_at = atol(c);
    const char *f = getenv("VSHIM_FAIL_AT");
    if (f && *f) fail_at = atol(f);
    const char *e = getenv("VSHIM_FAIL_ERRNO");
    if (e && *e) fail_errno = atoi(e);
}

static int in_root(const char *p) {
    if (!rootlen || !p) return 0;
    if (strncmp(p, root, rootlen) != 0) return 0;
    return p[rootlen] == '/' || p[rootlen] == 0;
}
static int tracked(int fd) { return fd >= 0 && fd < MAXFD && fdpath[fd] != NULL; }

static void logline(long ms, const char *fmt, ...) {
    if (logfd < 0) return;
    char head[8192];
    int n = snprintf(head, sizeof head, "%ld %ld %ld ", seq, ms, (long)syscall(SYS_gettid));
    va_list ap;
    va_start(ap, fmt);
    n += vsnprintf(head + n, sizeof head - n - 2, fmt, ap);
    va_end(ap);
    if (n > (int)sizeof head - 2) n = sizeof head - 2;
    head[n++] = '\n';
    raw_write(logfd, head, n);
}

static void logdata(long ms, const char *kind, int fd, long ret, long off, int has_off, const void *data, size_t len) {
    if (logfd < 0) return;
    size_t cap = len * 2 + 256;
    char *b = malloc(cap);
    if (!b) _exit(97);
    int n;
    if (has_off)
        n = snprintf(b, cap, "%ld %ld %ld %s %d %ld %ld ", seq, ms, (long)syscall(SYS_gettid), kind, fd, ret, off);
    else
        n = snprintf(b, cap, "%ld %ld %ld %s %d %ld ", seq, ms, (long)syscall(SYS_gettid), kind, fd, ret);
    static const char hx[] = "0123456789abcdef";
    const unsigned char *d = data;
    for (size_t i = 0; i < len; i++) {
        b[n++] = hx[d[i] >> 4];
        b[n++] = hx[d[i] & 15];
    }
    if (len == 0) b[n++] = '-';
    b[n++] = '\n';
    raw_write(logfd, b, n);
    free(b);
}

static void unmodelled(const char *what) {
    seq++;
    logline(0, "unmodelled %s", what);
    _exit(98);
}

// called with mu held, before a mutating call is executed; returns the mutating index
static long pre_mut(void) {
    mseq++;
    if (crash_at > 0 && mseq == crash_at) {
        seq++;
        logline(0, "crash %ld", mseq);
        _exit(137);
    }
    return mseq;
}
// called with mu held for every eligible call; returns 1 if this call must fail
static int inject(void) {
    if (!armed || fail_at <= 0) return 0;
    elig++;
    if (elig == fail_at) {
        seq++;
        logline(0, "inject %ld %d", elig, fail_errno);
        return 1;
    }
    return 0;
}

#define REAL(name) \
    static __typeof__(&name) real = NULL; \
    if (!real) real = (__typeof__(&name))dlsym(RTLD_NEXT, #name);

static int do_open(int (*realfn)(const char *, int, ...), const char *path, int flags, mode_t mode) {
    if (!in_root(path)) return realfn(path, flags, mode);
    pthread_mutex_lock(&mu);
    int mut = (flags & (O_CREAT | O_TRUNC)) != 0;
    long ms = mut ? pre_mut() : 0;
    int fd;
    if (mut && inject()) {
        fd = -1;
        errno = (fail_errno == EIO) ? EIO : ENOSPC;
    } else {
        fd = realfn(path, flags, mode);
    }
    int e = errno;
    seq++;
    logline(ms, "open %d %x %s", fd >= 0 ? fd : -e, flags, path);
    if (fd >= 0 && fd < MAXFD) {
        free(fdpath[fd]);
        fdpath[fd] = strdup(path);
    }
    pthread_mutex_unlock(&mu);
    errno = e;
    return fd;
}

int open(const char *path, int flags, ...) {
    REAL(open)
    mode_t mode = 0;
    if (flags & (O_CREAT | O_TMPFILE)) {
        va_list ap;
        va_start(ap, flags);
        mode = va_arg(ap, mode_t);
        va_end(ap);
    }
    return do_open(real, path, flags, mode);
}
int open64(const char *path, int flags, ...) {
    REAL(open64)
    mode_t mode = 0;
    if (flags & (O_CREAT | O_TMPFILE)) {
        va_list ap;
        va_start(ap, flags);
        mode = va_arg(ap, mode_t);
        va_end(ap);
    }
    return do_open(real, path, flags, mode);
}
static int (*real_openat_fn)(int, const char *, int, ...) = NULL;
static int openat_cwd(const char *path, int flags, ...) {
    va_list ap;
    va_start(ap, flags);
    mode_t mode = va_arg(ap, mode_t);
    va_end(ap);
    return real_openat_fn(AT_FDCWD, path, flags, mode);
}
int openat(int dirfd, const char *path, int flags, ...) {
    REAL(openat)
    mode_t mode = 0;
    if (flags & (O_CREAT | O_TMPFILE)) {
        va_list ap;
        va_start(ap, flags);
        mode = va_arg(ap, mode_t);
        va_end(ap);
    }
    if (path && path[0] == '/') {
        real_openat_fn = real;
        return do_open(openat_cwd, path, flags, mode);
    }
    if (dirfd != AT_FDCWD && tracked(dirfd)) unmodelled("openat-relative");
    return real(dirfd, path, flags, mode);
}
int openat64(int dirfd, const char *path, int flags, ...) {
    REAL(openat64)
    mode_t mode = 0;
    if (flags & (O_CREAT | O_TMPFILE)) {
        va_list ap;
        va_start(ap, flags);
        mode = va_arg(ap, mode_t);
        va_end(ap);
    }
    if (path && path[0] == '/') {
        real_openat_fn = (int (*)(int, const char *, int, ...))real;
        return do_open(openat_cwd, path, flags, mode);
    }
    if (dirfd != AT_FDCWD && tracked(dirfd)) unmodelled("openat64-relative");
    return real(dirfd, path, flags, mode);
}
int creat(const char *path, mode_t mode) { return open(path, O_CREAT | O_WRONLY | O_TRUNC, mode); }
int creat64(const char *path, mode_t mode) { return open64(path, O_CREAT | O_WRONLY | O_TRUNC, mode); }

ssize_t write(int fd, const void *buf, size_t n) {
    REAL(write)
    if (fd == MARK_FD) {
        pthread_mutex_lock(&mu);
        char t[9000];
        size_t m = n < sizeof t - 1 ? n : sizeof t - 1;
        memcpy(t, buf, m);
        t[m] = 0;
        if (strncmp(t, "CTL ", 4) == 0) {
            // (re)configure: "CTL <crash_at> <fail_at> <errno> <root>\t<log>"  (used by the fork server's children)
            long ca = -1, fa = -1;
            int en = EIO, off = 0;
            if (sscanf(t + 4, "%ld %ld %d %n", &ca, &fa, &en, &off) >= 3) {
                char *paths = t + 4 + off;
                char *tab = strchr(paths, '\t');
                if (tab) {
                    *tab = 0;
                    strncpy(root, paths, sizeof(root) - 1);
                    root[sizeof(root) - 1] = 0;
                    rootlen = strlen(root);
                    while (rootlen > 1 && root[rootlen - 1] == '/') root[--rootlen] = 0;
                    if (logfd >= 0) syscall(SYS_close, logfd);
                    logfd = tab[1] ? (int)syscall(SYS_openat, AT_FDCWD, tab + 1, O_WRONLY | O_CREAT | O_APPEND | O_CLOEXEC, 0644) : -1;
                    crash_at = ca;
                    fail_at = fa;
                    fail_errno = en;
                    seq = mseq = elig = 0;
                    armed = 0;
                    for (int i = 0; i < MAXFD; i++) {
                        free(fdpath[i]);
                        fdpath[i] = NULL;
                    }
                }
            }
            pthread_mutex_unlock(&mu);
            return (ssize_t)n;
        }
        if (strcmp(t, "ARM") == 0) armed = 1;
        if (strcmp(t, "DISARM") == 0) armed = 0;
        seq++;
        logline(0, "mark %s", t);
        pthread_mutex_unlock(&mu);
        return (ssize_t)n;
    }
    if (!tracked(fd)) return real(fd, buf, n);
    pthread_mutex_lock(&mu);
    long ms = pre_mut();
    ssize_t r;
    if (inject()) {
        r = -1;
        errno = (fail_errno == EIO) ? EIO : ENOSPC;
    } else {
        r = real(fd, buf, n);
    }
    int e = errno;
    seq++;
    logdata(ms, "write", fd, r >= 0 ? r : -e, 0, 0, buf, r > 0 ? (size_t)r : 0);
    pthread_mutex_unlock(&mu);
    errno = e;
    return r;
}

ssize_t pwrite(int fd, const void *buf, size_t n, off_t off) {
    REAL(pwrite)
    if (!tracked(fd)) return real(fd, buf, n, off);
    pthread_mutex_lock(&mu);
    long ms = pre_mut();
    ssize_t r;
    if (inject()) {
        r = -1;
        errno = (fail_errno == EIO) ? EIO : ENOSPC;
    } else {
        r = real(fd, buf, n, off);
    }
    int e = errno;
    seq++;
    logdata(ms, "pwrite", fd, r >= 0 ? r : -e, (long)off, 1, buf, r > 0 ? (size_t)r : 0);
    pthread_mutex_unlock(&mu);
    errno = e;
    return r;
}
ssize_t pwrite64(int fd, const void *buf, size_t n, off64_t off) {
    REAL(pwrite64)
    if (!tracked(fd)) return real(fd, buf, n, off);
    pthread_mutex_lock(&mu);
    long ms = pre_mut();
    ssize_t r;
    if (inject()) {
        r = -1;
        errno = (fail_errno == EIO) ? EIO : ENOSPC;
    } else {
        r = real(fd, buf, n, off);
    }
    int e = errno;
    seq++;
    logdata(ms, "pwrite", fd, r >= 0 ? r : -e, (long)off, 1, buf, r > 0 ? (size_t)r : 0);
    pthread_mutex_unlock(&mu);
    errno = e;
    return r;
}

ssize_t writev(int fd, const struct iovec *iov, int cnt) {
    REAL(writev)
    if (!tracked(fd)) return real(fd, iov, cnt);
    // normalise to one write of the concatenation
    size_t total = 0;
    for (int i = 0; i < cnt; i++) total += iov[i].iov_len;
    char *b = malloc(total ? total : 1);
    if (!b) _exit(97);
    size_t o = 0;
    for (int i = 0; i < cnt; i++) {
        memcpy(b + o, iov[i].iov_base, iov[i].iov_len);
        o += iov[i].iov_len;
    }
    ssize_t r = write(fd, b, total);
    int e = errno;
    free(b);
    errno = e;
    return r;
}

static int do_sync(int (*realfn)(int), int fd, char kind) {
    if (!tracked(fd)) return realfn(fd);
    pthread_mutex_lock(&mu);
    int r;
    if (inject()) {
        r = -1;
        errno = EIO;
    } else {
        r = realfn(fd);
    }
    int e = errno;
    seq++;
    logline(0, "sync %d %d %c", fd, r == 0 ? 0 : -e, kind);
    pthread_mutex_unlock(&mu);
    errno = e;
    return r;
}
int fsync(int fd) {
    REAL(fsync)
    return do_sync(real, fd, 'f');
}
int fdatasync(int fd) {
    REAL(fdatasync)
    return do_sync(real, fd, 'd');
}

int rename(const char *a, const char *b) {
    REAL(rename)
    if (!in_root(a) && !in_root(b)) return real(a, b);
    pthread_mutex_lock(&mu);
    long ms = pre_mut();
    int r;
    if (inject()) {
        r = -1;
        errno = EIO;
    } else {
        r = real(a, b);
    }
    int e = errno;
    seq++;
    logline(ms, "rename %d %s\t%s", r == 0 ? 0 : -e, a, b);
    pthread_mutex_unlock(&mu);
    errno = e;
    return r;
}
int renameat(int ad, const char *a, int bd, const char *b) {
    REAL(renameat)
    if (a && b && a[0] == '/' && b[0] == '/') return rename(a, b);
    if (tracked(ad) || tracked(bd)) unmodelled("renameat-relative");
    return real(ad, a, bd, b);
}
int renameat2(int ad, const char *a, int bd, const char *b, unsigned int flags) {
    REAL(renameat2)
    if (a && b && a[0] == '/' && b[0] == '/' && (in_root(a) || in_root(b))) {
        if (flags != 0) unmodelled("renameat2-flags");
        return rename(a, b);
    }
    if (tracked(ad) || tracked(bd)) unmodelled("renameat2-relative");
    return real(ad, a, bd, b, flags);
}

static int path_op(const char *kind, int (*fn)(const char *, mode_t), const char *p, mode_t mode, int err_is_nospc) {
    pthread_mutex_lock(&mu);
    long ms = pre_mut();
    int r;
    if (inject()) {
        r = -1;
        errno = (err_is_nospc && fail_errno != EIO) ? ENOSPC : EIO;
    } else {
        r = fn(p, mode);
    }
    int e = errno;
    seq++;
    logline(ms, "%s %d %s", kind, r == 0 ? 0 : -e, p);
    pthread_mutex_unlock(&mu);
    errno = e;
    return r;
}
static int (*real_unlink_fn)(const char *) = NULL;
static int unlink_adapter(const char *p, mode_t m) {
    (void)m;
    return real_unlink_fn(p);
}
int unlink(const char *p) {
    REAL(unlink)
    if (!in_root(p)) return real(p);
    real_unlink_fn = real;
    return path_op("unlink", unlink_adapter, p, 0, 0);
}
static int (*real_rmdir_fn)(const char *) = NULL;
static int rmdir_adapter(const char *p, mode_t m) {
    (void)m;
    return real_rmdir_fn(p);
}
int rmdir(const char *p) {
    REAL(rmdir)
    if (!in_root(p)) return real(p);
    real_rmdir_fn = real;
    return path_op("rmdir", rmdir_adapter, p, 0, 0);
}
int unlinkat(int dirfd, const char *p, int flags) {
    REAL(unlinkat)
    if (p && p[0] == '/' && in_root(p)) return (flags & AT_REMOVEDIR) ? rmdir(p) : unlink(p);
    if (tracked(dirfd)) unmodelled("unlinkat-relative");
    return real(dirfd, p, flags);
}
int mkdir(const char *p, mode_t mode) {
    REAL(mkdir)
    if (!in_root(p)) return real(p, mode);
    return path_op("mkdir", real, p, mode, 1);
}
int mkdirat(int dirfd, const char *p, mode_t mode) {
    REAL(mkdirat)
    if (p && p[0] == '/' && in_root(p)) return mkdir(p, mode);
    if (tracked(dirfd)) unmodelled("mkdirat-relative");
    return real(dirfd, p, mode);
}

int ftruncate(int fd, off_t len) {
    REAL(ftruncate)
    if (!tracked(fd)) return real(fd, len);
    pthread_mutex_lock(&mu);
    long ms = pre_mut();
    int r;
    if (inject()) {
        r = -1;
        errno = EIO;
    } else {
        r = real(fd, len);
    }
    int e = errno;
    seq++;
    logline(ms, "trunc %d %d %ld", fd, r == 0 ? 0 : -e, (long)len);
    pthread_mutex_unlock(&mu);
    errno = e;
    return r;
}
int ftruncate64(int fd, off64_t len) { return ftruncate(fd, (off_t)len); }
int truncate(const char *p, off_t len) {
    REAL(truncate)
    if (in_root(p)) unmodelled("truncate-path");
    return real(p, len);
}
int truncate64(const char *p, off64_t len) {
    REAL(truncate64)
    if (in_root(p)) unmodelled("truncate64-path");
    return real(p, len);
}

int close(int fd) {
    REAL(close)
    if (tracked(fd)) {
        pthread_mutex_lock(&mu);
        seq++;
        logline(0, "close %d", fd);
        free(fdpath[fd]);
        fdpath[fd] = NULL;
        pthread_mutex_unlock(&mu);
    }
    return real(fd);
}

int link(const char *a, const char *b) {
    REAL(link)
    if (in_root(a) || in_root(b)) unmodelled("link");
    return real(a, b);
}
int linkat(int ad, const char *a, int bd, const char *b, int flags) {
    REAL(linkat)
    if ((a && in_root(a)) || (b && in_root(b)) || tracked(ad) || tracked(bd)) unmodelled("linkat");
    return real(ad, a, bd, b, flags);
}
int symlink(const char *a, const char *b) {
    REAL(symlink)
    if (in_root(b)) unmodelled("symlink");
    return real(a, b);
}
int dup(int fd) {
    REAL(dup)
    if (tracked(fd)) unmodelled("dup");
    return real(fd);
}
int dup2(int a, int b) {
    REAL(dup2)
    if (tracked(a) || tracked(b)) unmodelled("dup2");
    return real(a, b);
}
int dup3(int a, int b, int f) {
    REAL(dup3)
    if (tracked(a) || tracked(b)) unmodelled("dup3");
    return real(a, b, f);
}
ssize_t copy_file_range(int a, off64_t *ao, int b, off64_t *bo, size_t n, unsigned int f) {
    REAL(copy_file_range)
    if (tracked(a) || tracked(b)) unmodelled("copy_file_range");
    return real(a, ao, b, bo, n, f);
}
ssize_t sendfile(int out, int in, off_t *off, size_t n) {
    static ssize_t (*real)(int, int, off_t *, size_t) = NULL;
    if (!real) real = dlsym(RTLD_NEXT, "sendfile");
    if (tracked(out)) unmodelled("sendfile");
    return real(out, in, off, n);
}
int fallocate(int fd, int mode, off_t off, off_t len) {
    REAL(fallocate)
    if (tracked(fd)) unmodelled("fallocate");
    return real(fd, mode, off, len);
}
int posix_fallocate(int fd, off_t off, off_t len) {
    REAL(posix_fallocate)
    if (tracked(fd)) unmodelled("posix_fallocate");
    return real(fd, off, len);
}
void *mmap(void *addr, size_t len, int prot, int flags, int fd, off_t off) {
    REAL(mmap)
    if (fd >= 0 && (prot & PROT_WRITE) && (flags & MAP_SHARED) && tracked(fd)) unmodelled("mmap-shared-write");
    return real(addr, len, prot, flags, fd, off);
}
