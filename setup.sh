#!/bin/sh
# Offline build of everything the checks need, from files on disk only.
set -e
HERE=$(cd "$(dirname "$0")" && pwd)
export CARGO_NET_OFFLINE=true
cd "$HERE/harness"
# serialise concurrent invocations
exec 9>"$HERE/.build.lock"
flock 9
cargo build --release --offline 2>&1
if [ -f "$HERE/shim/fsshim.c" ]; then
    if [ ! -f "$HERE/target/fsshim.so" ] || [ "$HERE/shim/fsshim.c" -nt "$HERE/target/fsshim.so" ]; then
        cc -O2 -shared -fPIC -o "$HERE/target/fsshim.so" "$HERE/shim/fsshim.c" -ldl -lpthread
    fi
fi
